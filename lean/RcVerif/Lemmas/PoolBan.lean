import RcVerif.Model.PoolBan
/-
  Helper lemmas for the pool / ban model (`Model/PoolBan.lean`). Property statements live in
  `Props/PoolHist.lean`.
-/
namespace RcVerif.PoolBan

/-! ### connection lists: what the operations may change -/

/-- `cs'` is `cs` where some connections were closed (same length, same owner and role, never re-opened),
    possibly followed by newly dialled ones -/
def Ext (cs cs' : List Conn) : Prop :=
  cs.length ≤ cs'.length ∧
  ∀ (i : Nat) (x : Conn), cs[i]? = some x → ∃ y : Conn, cs'[i]? = some y ∧ y.pool = x.pool ∧ y.slave = x.slave ∧ (y.opened = true → x.opened = true)

theorem Ext.refl (cs : List Conn) : Ext cs cs :=
  ⟨Nat.le_refl _, fun _ x h => ⟨x, h, rfl, rfl, id⟩⟩

theorem Ext.trans {a b c : List Conn} (h1 : Ext a b) (h2 : Ext b c) : Ext a c := by
  refine ⟨Nat.le_trans h1.1 h2.1, fun i x hx => ?_⟩
  obtain ⟨y, hy, p1, s1, o1⟩ := h1.2 i x hx
  obtain ⟨z, hz, p2, s2, o2⟩ := h2.2 i y hy
  exact ⟨z, hz, p2.trans p1, s2.trans s1, fun h => o1 (o2 h)⟩

theorem ext_append (cs : List Conn) (x : Conn) : Ext cs (cs ++ [x]) := by
  refine ⟨by simp, fun i y hy => ⟨y, ?_, rfl, rfl, id⟩⟩
  have hi : i < cs.length := by
    rcases Nat.lt_or_ge i cs.length with h | h
    · exact h
    · rw [List.getElem?_eq_none_iff.mpr h] at hy; cases hy
  rw [List.getElem?_append_left hi]; exact hy

theorem ext_modify (cs : List Conn) (c : Nat) : Ext cs (cs.modify c (fun x => { x with opened := false })) := by
  refine ⟨by simp, fun i x hx => ?_⟩
  rw [List.getElem?_modify]
  by_cases h : c = i
  · subst h; simp [hx]
  · simp [h, hx]

theorem ext_vanish (cs : List Conn) (c : Nat) : Ext cs (cs.modify c (fun x => { x with gone := true })) := by
  refine ⟨by simp, fun i x hx => ?_⟩
  rw [List.getElem?_modify]
  by_cases h : c = i
  · subst h; simp [hx]
  · simp [h, hx]

theorem ext_closeConns (ids : List Nat) : ∀ cs : List Conn, Ext cs (closeConns cs ids) := by
  induction ids with
  | nil => intro cs; exact Ext.refl cs
  | cons id rest ih =>
    intro cs
    show Ext cs (closeConns (cs.modify id _) rest)
    exact (ext_modify cs id).trans (ih _)

theorem isOpen_of_ext {cs cs' : List Conn} (h : Ext cs cs') {i : Nat} (hi : i < cs.length)
    (ho : isOpen cs' i = true) : isOpen cs i = true := by
  obtain ⟨x, hx⟩ : ∃ x, cs[i]? = some x := ⟨cs[i], List.getElem?_eq_getElem hi⟩
  obtain ⟨y, hy, _, _, o⟩ := h.2 i x hx
  simp only [isOpen, hy] at ho
  simp only [isOpen, hx]; exact o ho

theorem isOpen_modify_self (cs : List Conn) (c : Nat) :
    isOpen (cs.modify c (fun x => { x with opened := false })) c = false := by
  simp only [isOpen, List.getElem?_modify]
  cases h : cs[c]? <;> simp

theorem closed_stays_closed {cs cs' : List Conn} (h : Ext cs cs') {i : Nat} (hi : i < cs.length)
    (hc : isOpen cs i = false) : isOpen cs' i = false := by
  cases h' : isOpen cs' i
  · rfl
  · rw [isOpen_of_ext h hi h'] at hc; cases hc

theorem closeConns_closes (ids : List Nat) : ∀ (cs : List Conn) (c : Nat), c ∈ ids → c < cs.length →
    isOpen (closeConns cs ids) c = false := by
  induction ids with
  | nil => intro cs c h; cases h
  | cons id rest ih =>
    intro cs c hc hl
    show isOpen (closeConns (cs.modify id _) rest) c = false
    rcases List.mem_cons.mp hc with h | h
    · subst h
      exact closed_stays_closed (ext_closeConns rest _) (by simpa using hl) (isOpen_modify_self cs c)
    · exact ih _ c h (by simpa using hl)

/-! ### the rotation loop -/

theorem rotateRev_open {cs : List Conn} : ∀ {l : List Nat} {id : Nat} {rest : List Nat},
    rotateRev cs l = some (id, rest) → isOpen cs id = true := by
  intro l
  induction l with
  | nil => intro id rest h; simp [rotateRev] at h
  | cons a t ih =>
    intro id rest h
    unfold rotateRev at h
    by_cases ho : isOpen cs a = true
    · rw [if_pos ho] at h
      injection h with h; injection h with h1 _; subst h1; exact ho
    · rw [if_neg ho] at h; exact ih h

theorem rotateRev_sublist {cs : List Conn} : ∀ {l : List Nat} {id : Nat} {rest : List Nat},
    rotateRev cs l = some (id, rest) → (id :: rest).Sublist l := by
  intro l
  induction l with
  | nil => intro id rest h; simp [rotateRev] at h
  | cons a t ih =>
    intro id rest h
    unfold rotateRev at h
    by_cases ho : isOpen cs a = true
    · rw [if_pos ho] at h
      injection h with h; injection h with h1 h2; subst h1; subst h2; exact List.Sublist.refl _
    · rw [if_neg ho] at h; exact (ih h).cons a

theorem rotateRev_none {cs : List Conn} : ∀ {l : List Nat}, (∀ c ∈ l, isOpen cs c = false) → rotateRev cs l = none := by
  intro l
  induction l with
  | nil => intro _; rfl
  | cons a t ih =>
    intro h
    unfold rotateRev
    have ha : ¬ isOpen cs a = true := by rw [h a (List.mem_cons_self ..)]; exact Bool.false_ne_true
    rw [if_neg ha]
    exact ih (fun c hc => h c (List.mem_cons_of_mem _ hc))

theorem rotateRev_head {cs : List Conn} {a : Nat} {t : List Nat} (h : isOpen cs a = true) :
    rotateRev cs (a :: t) = some (a, t) := by
  unfold rotateRev; rw [if_pos h]

/-! ### the invariant -/

/-- what holds of every pool in every reachable state -/
@[reducible] def PoolOK (s : St) (p : Nat) (pl : Pool) : Prop :=
  (∀ c ∈ pl.active, ∃ x, s.conns[c]? = some x ∧ x.pool = p ∧ x.slave = pl.isSlave) ∧
  pl.active.length ≤ max pl.maxActive 1 ∧ pl.order ≤ 5 ∧ (pl.closed = true → pl.active = [])

def Inv (s : St) : Prop := ∀ p pl, s.pools[p]? = some pl → PoolOK s p pl

theorem poolOK_ext {s : St} {cs' : List Conn} {p : Nat} {pl : Pool} (h : PoolOK s p pl) (he : Ext s.conns cs')
    (pools' : List Pool) : PoolOK { pools := pools', conns := cs' } p pl := by
  refine ⟨fun c hc => ?_, h.2.1, h.2.2.1, h.2.2.2⟩
  obtain ⟨x, hx, hp, hs⟩ := h.1 c hc
  obtain ⟨y, hy, p1, s1, _⟩ := he.2 c x hx
  exact ⟨y, hy, p1.trans hp, s1.trans hs⟩

/-- replacing pool `p` by a pool that is fine in the new state, over an extended connection list -/
theorem inv_set {s : St} (hI : Inv s) {cs' : List Conn} (he : Ext s.conns cs') (p : Nat) (pl' : Pool)
    (hp : PoolOK { pools := s.pools.set p pl', conns := cs' } p pl') :
    Inv { pools := s.pools.set p pl', conns := cs' } := by
  intro q ql hq
  simp only at hq
  by_cases hqp : p = q
  · subst hqp
    rw [List.getElem?_set_self'] at hq
    cases hl : s.pools[p]? with
    | none => rw [hl] at hq; cases hq
    | some old => rw [hl] at hq; simp at hq; subst hq; exact hp
  · rw [List.getElem?_set_ne hqp] at hq
    exact poolOK_ext (hI q ql hq) he _

theorem inv_conns {s : St} (hI : Inv s) {cs' : List Conn} (he : Ext s.conns cs') : Inv { s with conns := cs' } := by
  intro q ql hq
  exact poolOK_ext (hI q ql hq) he _

/-- a change of the ban fields, `dialOk` only -/
def SameShape (a b : Pool) : Prop :=
  b.active = a.active ∧ b.maxActive = a.maxActive ∧ b.isSlave = a.isSlave ∧ b.closed = a.closed

theorem inv_updPool {s : St} (hI : Inv s) (p : Nat) (f : Pool → Pool)
    (hf : ∀ pl, SameShape pl (f pl) ∧ (pl.order ≤ 5 → (f pl).order ≤ 5)) : Inv (updPool s p f) := by
  unfold updPool
  cases hl : s.pools[p]? with
  | none => exact hI
  | some pl =>
    have hok := hI p pl hl
    obtain ⟨⟨ha, hm, hs, hc⟩, ho⟩ := hf pl
    apply inv_set hI (Ext.refl _) p (f pl)
    refine ⟨fun c hc' => ?_, ?_, ho hok.2.2.1, ?_⟩
    · rw [ha] at hc'; rw [hs]; exact hok.1 c hc'
    · rw [ha, hm]; exact hok.2.1
    · rw [hc, ha]; exact hok.2.2.2

theorem updPool_conns (s : St) (p : Nat) (f : Pool → Pool) : (updPool s p f).conns = s.conns := by
  unfold updPool; cases s.pools[p]? <;> rfl

theorem updPool_get_self {s : St} {p : Nat} {pl : Pool} (f : Pool → Pool) (h : s.pools[p]? = some pl) :
    (updPool s p f).pools[p]? = some (f pl) := by
  unfold updPool; rw [h]; simp only [setPool]
  rw [List.getElem?_set_self']; rw [h]; rfl

theorem updPool_get_ne {s : St} {p q : Nat} (f : Pool → Pool) (h : p ≠ q) :
    (updPool s p f).pools[q]? = s.pools[q]? := by
  unfold updPool; cases hl : s.pools[p]? with
  | none => rfl
  | some pl => simp only [setPool]; exact List.getElem?_set_ne h

/-! ### `dial` and `get` -/

theorem dial_spec {s : St} {p : Nat} {pl : Pool} {s' : St} {r : Option Nat} (h : dial s p pl = (s', r)) :
    (pl.dialOk = true ∧ r = some s.conns.length ∧
      s' = { pools := s.pools.set p { pl with active := s.conns.length :: pl.active },
             conns := s.conns ++ [{ pool := p, opened := true, slave := pl.isSlave }] }) ∨
    (pl.dialOk = false ∧ r = none ∧ s' = setPool s p pl) := by
  unfold dial at h
  by_cases hd : pl.dialOk = true
  · rw [if_pos hd] at h; injection h with h1 h2; exact Or.inl ⟨hd, h2.symm, h1.symm⟩
  · rw [if_neg hd] at h; injection h with h1 h2
    exact Or.inr ⟨by simpa using hd, h2.symm, h1.symm⟩

/-- the three ways `Pool.Get` ends -/
inductive GetCase (s : St) (p : Nat) (s' : St) (r : Option Nat) : Prop
  | refused (h : s' = s) (hr : r = none) (hc : ∀ pl, s.pools[p]? = some pl → pl.closed = true)
  | dialled (pl pl0 : Pool) (hp : s.pools[p]? = some pl) (hcl : pl.closed = false)
      (h0 : pl0.maxActive = pl.maxActive ∧ pl0.isSlave = pl.isSlave ∧ pl0.closed = pl.closed ∧
            pl0.order = pl.order ∧ pl0.dialOk = pl.dialOk)
      (hact : pl0.active = pl.active ∧ pl.active.length < pl.maxActive ∨
              pl0.active = [] ∧ ¬ pl.active.length < pl.maxActive ∧ rotateRev s.conns pl.active.reverse = none)
      (hd : dial s p pl0 = (s', r))
  | rotated (pl : Pool) (hp : s.pools[p]? = some pl) (hcl : pl.closed = false) (id : Nat) (rest : List Nat)
      (hfull : ¬ pl.active.length < pl.maxActive)
      (hrot : rotateRev s.conns pl.active.reverse = some (id, rest))
      (hs : s' = setPool s p { pl with active := id :: rest.reverse }) (hr : r = some id)

theorem get_cases {s : St} {p : Nat} {s' : St} {r : Option Nat} (h : get s p = (s', r)) : GetCase s p s' r := by
  unfold get at h
  cases hl : s.pools[p]? with
  | none =>
    rw [hl] at h; injection h with h1 h2
    exact .refused h1.symm h2.symm (fun pl hp => by rw [hl] at hp; cases hp)
  | some pl =>
    rw [hl] at h; simp only at h
    by_cases hc : pl.closed = true
    · rw [if_pos hc] at h; injection h with h1 h2
      exact .refused h1.symm h2.symm (fun pl' hp => by rw [hl] at hp; injection hp with hp; subst hp; exact hc)
    · rw [if_neg hc] at h
      have hcl : pl.closed = false := by simpa using hc
      by_cases hlt : pl.active.length < pl.maxActive
      · rw [if_pos hlt] at h
        exact .dialled pl pl hl hcl ⟨rfl, rfl, rfl, rfl, rfl⟩ (Or.inl ⟨rfl, hlt⟩) h
      · rw [if_neg hlt] at h
        cases hr : rotateRev s.conns pl.active.reverse with
        | none =>
          rw [hr] at h
          exact .dialled pl { pl with active := [] } hl hcl ⟨rfl, rfl, rfl, rfl, rfl⟩ (Or.inr ⟨rfl, hlt, hr⟩) h
        | some pr =>
          obtain ⟨id, rest⟩ := pr
          rw [hr] at h; injection h with h1 h2
          exact .rotated pl hl hcl id rest hlt hr h1.symm h2.symm

theorem setPool_self_get {s : St} {p : Nat} {pl : Pool} (pl' : Pool) (h : s.pools[p]? = some pl) :
    (setPool s p pl').pools[p]? = some pl' := by
  simp only [setPool]; rw [List.getElem?_set_self']; rw [h]; rfl

theorem get_ext {s : St} {p : Nat} {s' : St} {r : Option Nat} (h : get s p = (s', r)) : Ext s.conns s'.conns := by
  cases get_cases h with
  | refused h1 _ _ => subst h1; exact Ext.refl _
  | dialled pl pl0 hp hcl h0 hact hd =>
    rcases dial_spec hd with ⟨_, _, hs⟩ | ⟨_, _, hs⟩
    · subst hs; exact ext_append _ _
    · subst hs; exact Ext.refl _
  | rotated pl hp hcl id rest hfull hrot hs hr => subst hs; exact Ext.refl _

/-- a failed `Get` dials nothing -/
theorem get_none_conns {s : St} {p : Nat} {s' : St} (h : get s p = (s', none)) : s'.conns = s.conns := by
  cases get_cases h with
  | refused h1 _ _ => subst h1; rfl
  | dialled pl pl0 hp hcl h0 hact hd =>
    rcases dial_spec hd with ⟨_, hr, _⟩ | ⟨_, _, hs⟩
    · cases hr
    · subst hs; rfl
  | rotated pl hp hcl id rest hfull hrot hs hr => cases hr

/-- whatever `Get` returns is open, heads the pool's list, and the pool stays a pool -/
theorem get_some {s : St} {p : Nat} {s' : St} {c : Nat} (h : get s p = (s', some c)) :
    isOpen s'.conns c = true ∧ ∃ pl', s'.pools[p]? = some pl' ∧ pl'.active.head? = some c := by
  cases get_cases h with
  | refused _ hr _ => cases hr
  | dialled pl pl0 hp hcl h0 hact hd =>
    rcases dial_spec hd with ⟨_, hr, hs⟩ | ⟨_, hr, _⟩
    · injection hr with hr; subst hr; subst hs
      refine ⟨by simp [isOpen], { pl0 with active := s.conns.length :: pl0.active }, ?_, rfl⟩
      show (s.pools.set p _)[p]? = _
      rw [List.getElem?_set_self']; rw [hp]; rfl
    · cases hr
  | rotated pl hp hcl id rest hfull hrot hs hr =>
    injection hr with hr; subst hr; subst hs
    exact ⟨rotateRev_open hrot, _, setPool_self_get _ hp, rfl⟩

theorem inv_get {s : St} (hI : Inv s) {p : Nat} {s' : St} {r : Option Nat} (h : get s p = (s', r)) : Inv s' := by
  cases get_cases h with
  | refused h1 _ _ => subst h1; exact hI
  | dialled pl pl0 hp hcl h0 hact hd =>
    obtain ⟨hm, hsl, hcl0, hord, _⟩ := h0
    have hok := hI p pl hp
    have hsub : ∀ c ∈ pl0.active, c ∈ pl.active := by
      rcases hact with ⟨ha, _⟩ | ⟨ha, _⟩ <;> rw [ha] <;> simp
    have hlen : pl0.active.length + 1 ≤ max pl0.maxActive 1 := by
      rcases hact with ⟨ha, hlt⟩ | ⟨ha, _⟩
      · rw [ha, hm]; omega
      · rw [ha]; simp; omega
    have hlen0 : pl0.active.length ≤ max pl0.maxActive 1 := by omega
    rcases dial_spec hd with ⟨_, _, hs⟩ | ⟨_, _, hs⟩
    · subst hs
      apply inv_set hI (ext_append _ _) p
      refine ⟨fun c hc => ?_, by simpa using hlen, by show pl0.order ≤ 5; rw [hord]; exact hok.2.2.1,
        fun hc => by
          have : pl0.closed = true := hc
          rw [hcl0, hcl] at this; cases this⟩
      have hc' : c ∈ s.conns.length :: pl0.active := hc
      rcases List.mem_cons.mp hc' with h1 | h1
      · subst h1; exact ⟨{ pool := p, opened := true, slave := pl0.isSlave }, by simp, rfl, rfl⟩
      · obtain ⟨x, hx, hxp, hxs⟩ := hok.1 c (hsub c h1)
        obtain ⟨y, hy, p1, s1, _⟩ := (ext_append s.conns { pool := p, opened := true, slave := pl0.isSlave }).2 c x hx
        exact ⟨y, hy, p1.trans hxp, by show y.slave = pl0.isSlave; rw [hsl]; exact s1.trans hxs⟩
    · subst hs
      apply inv_set hI (Ext.refl _) p
      refine ⟨fun c hc => ?_, hlen0, by rw [hord]; exact hok.2.2.1, fun hc => by rw [hcl0, hcl] at hc; cases hc⟩
      obtain ⟨x, hx, hxp, hxs⟩ := hok.1 c (hsub c hc)
      exact ⟨x, hx, hxp, by rw [hsl]; exact hxs⟩
  | rotated pl hp hcl id rest hfull hrot hs hr =>
    subst hs
    have hok := hI p pl hp
    have hsl := rotateRev_sublist hrot
    apply inv_set hI (Ext.refl _) p
    refine ⟨fun c hc => ?_, ?_, hok.2.2.1, fun hc => by
      have : pl.closed = true := hc
      rw [hcl] at this; cases this⟩
    · apply hok.1 c
      have hc' : c ∈ id :: rest.reverse := hc
      have : c ∈ id :: rest := by
        rcases List.mem_cons.mp hc' with h1 | h1
        · exact h1 ▸ List.mem_cons_self ..
        · exact List.mem_cons_of_mem _ (List.mem_reverse.mp h1)
      exact List.mem_reverse.mp (hsl.subset this)
    · have := hsl.length_le
      show (id :: rest.reverse).length ≤ max pl.maxActive 1
      simp only [List.length_cons, List.length_reverse] at this ⊢
      exact Nat.le_trans this hok.2.1

/-! ### the other operations -/

theorem inv_lose {s : St} (hI : Inv s) (c : Nat) : Inv (lose s c) := inv_conns hI (ext_modify _ c)

theorem inv_setDial {s : St} (hI : Inv s) (p : Nat) (ok : Bool) : Inv (setDial s p ok) := by
  have : setDial s p ok = updPool s p (fun pl => { pl with dialOk := ok }) := by
    unfold setDial updPool; rfl
  rw [this]
  exact inv_updPool hI p _ (fun pl => ⟨⟨rfl, rfl, rfl, rfl⟩, id⟩)

theorem expire_eq (s : St) (p : Nat) : expire s p = updPool s p (fun pl => { pl with banPassed := true }) := by
  unfold expire updPool setPool; rfl

theorem inv_expire {s : St} (hI : Inv s) (p : Nat) : Inv (expire s p) := by
  rw [expire_eq]
  exact inv_updPool hI p _ (fun pl => ⟨⟨rfl, rfl, rfl, rfl⟩, id⟩)

theorem inv_release {s : St} (hI : Inv s) (p : Nat) : Inv (release s p) := by
  unfold release
  cases hl : s.pools[p]? with
  | none => exact hI
  | some pl =>
    simp only
    by_cases hc : pl.closed = true
    · rw [if_pos hc]; exact hI
    · rw [if_neg hc]
      have hok := hI p pl hl
      apply inv_set hI (ext_closeConns _ _) p
      exact ⟨fun c hc => (List.not_mem_nil hc).elim, by simp, hok.2.2.1, fun _ => rfl⟩

theorem release_ext (s : St) (p : Nat) : Ext s.conns (release s p).conns := by
  unfold release
  cases hl : s.pools[p]? with
  | none => exact Ext.refl _
  | some pl =>
    simp only
    by_cases hc : pl.closed = true
    · rw [if_pos hc]; exact Ext.refl _
    · rw [if_neg hc]; exact ext_closeConns _ _

theorem inv_close {s : St} (hI : Inv s) (p : Nat) : Inv (close s p) := by
  unfold close
  cases hl : s.pools[p]? with
  | none => exact hI
  | some pl =>
    simp only
    by_cases hc : pl.closed = true
    · rw [if_pos hc]; exact hI
    · rw [if_neg hc]
      have hR := inv_release hI p
      cases hl1 : (release s p).pools[p]? with
      | none => exact hR
      | some pl1 =>
        simp only
        have hok := hR p pl1 hl1
        -- after the release the list is empty
        have hemp : pl1.active = [] := by
          unfold release at hl1; rw [hl] at hl1; simp only at hl1; rw [if_neg hc] at hl1
          simp only at hl1; rw [List.getElem?_set_self'] at hl1; rw [hl] at hl1; simp at hl1
          rw [← hl1]
        have := inv_set hR (Ext.refl _) p { pl1 with closed := true }
          ⟨fun c hc => (by rw [hemp] at hc; exact absurd hc List.not_mem_nil), by simp [hemp], hok.2.2.1, fun _ => hemp⟩
        exact this

theorem inv_setIsSlave {s : St} (hI : Inv s) (p : Nat) (b : Bool) : Inv (setIsSlave s p b) := by
  unfold setIsSlave
  cases hl : s.pools[p]? with
  | none => exact hI
  | some pl =>
    simp only
    by_cases hb : pl.isSlave = b
    · rw [if_pos hb]; exact hI
    · rw [if_neg hb]
      have hok := hI p pl hl
      have hl' : (setPool s p { pl with isSlave := b }).pools[p]? = some { pl with isSlave := b } :=
        setPool_self_get _ hl
      unfold release; rw [hl']; simp only
      by_cases hc : pl.closed = true
      · rw [if_pos hc]
        have hemp := hok.2.2.2 hc
        exact inv_set hI (Ext.refl _) p _
          ⟨fun c hc' => (by rw [hemp] at hc'; exact absurd hc' List.not_mem_nil), by simp [hemp], hok.2.2.1, fun _ => hemp⟩
      · rw [if_neg hc]
        simp only [setPool, List.set_set]
        exact inv_set hI (ext_closeConns _ _) p _
          ⟨fun c hc' => (List.not_mem_nil hc').elim, by simp, hok.2.2.1, fun _ => rfl⟩

theorem banFail_shape (pl : Pool) : SameShape pl (banFail pl) ∧ (pl.order ≤ 5 → (banFail pl).order ≤ 5) := by
  refine ⟨⟨rfl, rfl, rfl, rfl⟩, fun _ => ?_⟩
  simp only [banFail]; split <;> omega

theorem inv_getConn {s : St} (hI : Inv s) (isRead : Bool) : Inv (getConn s isRead).1 := by
  unfold getConn
  simp only
  have h0 : Inv (if routePool s isRead = 1 then updPool s 1 (fun pl => { pl with flag := false }) else s) := by
    split
    · exact inv_updPool hI 1 _ (fun pl => ⟨⟨rfl, rfl, rfl, rfl⟩, id⟩)
    · exact hI
  generalize (if routePool s isRead = 1 then updPool s 1 (fun pl => { pl with flag := false }) else s) = s0 at h0
  cases hg : get s0 (routePool s isRead) with
  | mk s1 r =>
    have h1 := inv_get h0 hg
    cases r with
    | none => exact inv_updPool h1 _ _ banFail_shape
    | some c => exact inv_updPool h1 _ _ (fun pl => ⟨⟨rfl, rfl, rfl, rfl⟩, fun _ => Nat.zero_le _⟩)

theorem inv_request {s : St} (hI : Inv s) (isRead : Bool) : Inv (request s isRead).1 := by
  have h1 := inv_getConn hI isRead
  unfold request
  split
  · next s1 c _ heq => rw [heq] at h1; exact h1
  · next s1 heq =>
    rw [heq] at h1
    have h2 := inv_getConn (s := s1) h1 isRead
    split
    · next s2 c _ heq2 => rw [heq2] at h2; exact h2
    · next s2 _ heq2 => rw [heq2] at h2; exact h2
  · next s1 heq => rw [heq] at h1; exact h1

theorem deliver_ext (s : St) (c : Nat) : Ext s.conns (deliver s c).1.conns ∧ (deliver s c).1.pools = s.pools := by
  unfold deliver
  cases s.conns[c]? with
  | none => exact ⟨Ext.refl _, rfl⟩
  | some x =>
    simp only
    split
    · exact ⟨ext_modify _ c, rfl⟩
    · exact ⟨Ext.refl _, rfl⟩

theorem serve_pools (s : St) (isRead : Bool) : (serve s isRead).1.pools = (request s isRead).1.pools := by
  unfold serve
  split
  · next s1 c heq =>
    rw [heq]
    have := (deliver_ext s1 c).2
    split
    · next s2 h2 => rw [h2] at this; exact this
    · next s2 h2 => rw [h2] at this; exact this
  · next s1 heq => rw [heq]

theorem serve_ext (s : St) (isRead : Bool) : Ext (request s isRead).1.conns (serve s isRead).1.conns := by
  unfold serve
  split
  · next s1 c heq =>
    rw [heq]
    have := (deliver_ext s1 c).1
    split
    · next s2 h2 => rw [h2] at this; exact this
    · next s2 h2 => rw [h2] at this; exact this
  · next s1 heq => rw [heq]; exact Ext.refl _

theorem inv_serve {s : St} (hI : Inv s) (isRead : Bool) : Inv (serve s isRead).1 := by
  have h1 := inv_request hI isRead
  have h2 := inv_conns h1 (serve_ext s isRead)
  intro q ql hq
  rw [serve_pools] at hq
  have := h2 q ql hq
  exact poolOK_ext (s := { (request s isRead).1 with conns := (serve s isRead).1.conns }) this (Ext.refl _) _

theorem inv_step {s : St} (hI : Inv s) (op : Op) : Inv (step s op) := by
  cases op with
  | get p => exact inv_get hI (s' := (get s p).1) (r := (get s p).2) rfl
  | lose c => exact inv_lose hI c
  | vanish c => exact inv_conns hI (ext_vanish _ c)
  | setDial p ok => exact inv_setDial hI p ok
  | expire p => exact inv_expire hI p
  | release p => exact inv_release hI p
  | close p => exact inv_close hI p
  | setSlave p b => exact inv_setIsSlave hI p b
  | req r => exact inv_serve hI r

theorem inv_run {s : St} (hI : Inv s) (ops : List Op) : Inv (run s ops) := by
  induction ops generalizing s with
  | nil => exact hI
  | cons op rest ih => exact ih (inv_step hI op)

theorem inv_init (m : Nat) (rep : Bool) : Inv (init m rep) := by
  intro p pl hp
  have hact : pl.active = [] ∧ pl.order = 0 ∧ pl.closed = false := by
    unfold init at hp
    cases rep <;> simp only [Bool.false_eq_true, if_true, if_false] at hp
    · cases p with
      | zero => simp at hp; subst hp; exact ⟨rfl, rfl, rfl⟩
      | succ n => simp at hp
    · cases p with
      | zero => simp at hp; subst hp; exact ⟨rfl, rfl, rfl⟩
      | succ n => cases n with
        | zero => simp at hp; subst hp; exact ⟨rfl, rfl, rfl⟩
        | succ k => simp at hp
  obtain ⟨ha, ho, hc⟩ := hact
  exact ⟨fun c hc' => (by rw [ha] at hc'; exact absurd hc' List.not_mem_nil), by simp [ha], by omega, fun _ => ha⟩

end RcVerif.PoolBan
