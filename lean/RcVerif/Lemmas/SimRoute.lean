import RcVerif.Lemmas.SimRedir
/-
  Where fragments go, over all histories:
  * `AInv` - every pooled connection is a connection to its pool's node, so `Pool.Get` hands out a connection to
    the node that was asked for (`ainv_poolGet`);
  * `RoutedInv` - every fragment a client request queued directly sits in the queue history of a connection whose
    node belongs to the replica set owning the fragment's slot.
  `J = AInv ∧ RoutedInv` is preserved by every `Sim.step` (`j_step`, `j_run`).
-/
namespace RcVerif.Lemmas.SimRoute
open RcVerif RcVerif.Sim RcVerif.Merge RcVerif.Lemmas.SimInv RcVerif.Lemmas.SimBack RcVerif.Lemmas.SimPend RcVerif.Lemmas.SimRedir
open RcVerif.Props.C03 (msgs_flushClient msgs_deliver msgs_updReq_other)

/-- the slot table and every existing connection's address are kept -/
structure TKeep (s s' : State) : Prop where
  table : s'.table = s.table
  addr : ∀ (id : Nat) (b : Backend), s.backends[id]? = some b → ∃ b', s'.backends[id]? = some b' ∧ b'.addr = b.addr

theorem TKeep.refl (s : State) : TKeep s s := ⟨rfl, fun _ b h => ⟨b, h, rfl⟩⟩
theorem TKeep.trans {a b c : State} (h1 : TKeep a b) (h2 : TKeep b c) : TKeep a c := by
  refine ⟨by rw [h2.table, h1.table], fun id x hx => ?_⟩
  obtain ⟨x', hx', ha⟩ := h1.addr id x hx
  obtain ⟨x'', hx'', ha'⟩ := h2.addr id x' hx'
  exact ⟨x'', hx'', by rw [ha', ha]⟩

theorem tkeep_of_eq (s s' : State) (ht : s'.table = s.table) (hb : s'.backends = s.backends) : TKeep s s' :=
  ⟨ht, fun id b h => ⟨b, by rw [hb]; exact h, rfl⟩⟩

theorem tkeep_fail (s : State) (w : String) : TKeep s (s.fail w) := by
  unfold State.fail
  split
  · exact TKeep.refl s
  · exact tkeep_of_eq _ _ rfl rfl

theorem pools_fail (s : State) (w : String) : (s.fail w).pools = s.pools := by
  unfold State.fail; split <;> rfl

theorem tkeep_updClient (s : State) (c : Nat) (f : Client → Client) : TKeep s (s.updClient c f) := tkeep_of_eq _ _ rfl rfl
theorem tkeep_updReq (s : State) (mi : Nat) (f : Req → Req) : TKeep s (s.updReq mi f) := tkeep_of_eq _ _ rfl rfl
theorem tkeep_closeClient (s : State) (c : Nat) : TKeep s (closeClient s c) := tkeep_of_eq _ _ rfl rfl

theorem table_flushClient (s : State) (c : Nat) : (flushClient s c).table = s.table := by
  unfold flushClient
  split
  · rfl
  · split
    · rfl
    · dsimp only
      split
      · rfl
      · split
        · split <;> rfl
        · rfl

theorem tkeep_flushClient (s : State) (c : Nat) : TKeep s (flushClient s c) :=
  tkeep_of_eq _ _ (table_flushClient s c) (bsame_flushClient s c)

theorem tkeep_deliver (s : State) (c : Nat) : TKeep s (deliver s c) := by
  unfold deliver
  split
  · split
    · exact TKeep.refl s
    · split
      · exact tkeep_closeClient s c
      · exact tkeep_flushClient s c
  · exact TKeep.refl s

theorem tkeep_dropTimeout (s : State) (f : FragRef) : TKeep s (dropTimeout s f) := tkeep_of_eq _ _ rfl rfl

theorem tkeep_answerLocal (s : State) (c : Nat) (m : MMsg) (out : Bytes) : TKeep s (answerLocal s c m out) := by
  unfold answerLocal
  split
  · exact TKeep.refl s
  · dsimp only
    split <;> exact tkeep_of_eq _ _ rfl rfl

theorem tkeep_acceptReq (s : State) (c : Nat) (m : MMsg) : TKeep s (acceptReq s c m).1 := by
  unfold acceptReq
  dsimp only
  split <;> exact tkeep_of_eq _ _ rfl rfl

theorem tkeep_updBackend (s : State) (b : Nat) (f : Backend → Backend) (hf : ∀ x, (f x).addr = x.addr) : TKeep s (s.updBackend b f) := by
  refine ⟨rfl, fun id x hx => ?_⟩
  by_cases hib : id = b
  · subst hib; exact ⟨f x, backend_upd_same s id f x hx, hf x⟩
  · exact ⟨x, by rw [backend_upd_other s b id f hib]; exact hx, rfl⟩

theorem tkeep_enqueueOut (s : State) (b : Nat) (e : QEntry) : TKeep s (enqueueOut s b e) := by
  unfold enqueueOut
  refine TKeep.trans ?_ (tkeep_of_eq (s.updBackend b _) _ rfl rfl)
  exact tkeep_updBackend s b _ (fun _ => rfl)

theorem tkeep_appendBackend (s : State) (x : Backend) (ps : List Pool) : TKeep s { s with backends := s.backends ++ [x], pools := ps } := by
  refine ⟨rfl, fun id b hb => ⟨b, ?_, rfl⟩⟩
  show (s.backends ++ [x])[id]? = some b
  rw [getElem?_append_new]
  obtain ⟨hlt, _⟩ := List.getElem?_eq_some_iff.mp hb
  rw [if_pos hlt]; exact hb

theorem tkeep_dial (S : Strs) (cfg : Cfg) (s : State) (p : Nat) : TKeep s (dial S cfg s p).1 := by
  unfold dial
  split
  · exact tkeep_fail s _
  · exact tkeep_appendBackend s _ _

theorem tkeep_poolGet (S : Strs) (cfg : Cfg) (s : State) (p : Nat) : TKeep s (poolGet S cfg s p).1 := by
  unfold poolGet
  split
  · exact tkeep_fail s _
  · split
    · exact tkeep_dial S cfg s p
    · split
      · exact tkeep_of_eq _ _ rfl rfl
      · refine TKeep.trans ?_ (tkeep_dial S cfg _ p)
        exact tkeep_of_eq _ _ rfl rfl

theorem tkeep_writeSignal (S : Strs) (cfg : Cfg) (s : State) (b : Nat) : TKeep s (writeSignal S cfg s b) := by
  unfold writeSignal
  split
  · exact TKeep.refl s
  · dsimp only
    split
    · exact TKeep.refl s
    · refine TKeep.trans ?_ (tkeep_of_eq (s.updBackend b _) _ rfl rfl)
      exact tkeep_updBackend s b _ (fun _ => rfl)

/-! ### pooled connections belong to their pool's node -/

/-- every pooled connection is a connection to the pool's node, in the pool's role -/
def AInv (s : State) : Prop :=
  ∀ (p : Nat) (pool : Pool) (id : Nat), s.pools[p]? = some pool → id ∈ pool.active →
    ∃ b, s.backends[id]? = some b ∧ b.addr = pool.addr

theorem ainv_keep (s s' : State) (hp : s'.pools = s.pools) (hk : TKeep s s') (h : AInv s) : AInv s' := by
  intro p pool id hpool hid
  rw [hp] at hpool
  obtain ⟨b, hb, ha⟩ := h p pool id hpool hid
  obtain ⟨b', hb', ha'⟩ := hk.addr id b hb
  exact ⟨b', hb', by rw [ha', ha]⟩

theorem pools_setAt_same (pools : List Pool) (p : Nat) (f : Pool → Pool) (pool : Pool) (h : pools[p]? = some pool) :
    (setAt pools p f)[p]? = some (f pool) := by rw [getElem?_setAt]; simp [h]
theorem pools_setAt_other (pools : List Pool) (p q : Nat) (f : Pool → Pool) (h : q ≠ p) :
    (setAt pools p f)[q]? = pools[q]? := by rw [getElem?_setAt]; simp [h]

/-- changing one pool's active list to a sub-list keeps the invariant -/
theorem ainv_shrink (s : State) (p : Nat) (act : Pool → List Nat) (h : AInv s)
    (hsub : ∀ pool, s.pools[p]? = some pool → ∀ id ∈ act pool, id ∈ pool.active) :
    AInv { s with pools := setAt s.pools p (fun q => { q with active := act q }) } := by
  intro q pool id hpool hid
  by_cases hqp : q = p
  · subst hqp
    cases hp0 : s.pools[q]? with
    | none =>
      have : (setAt s.pools q (fun q => { q with active := act q }))[q]? = none := by rw [getElem?_setAt]; simp [hp0]
      have hpool' : (setAt s.pools q (fun q => { q with active := act q }))[q]? = some pool := hpool
      rw [this] at hpool'; simp at hpool'
    | some pool0 =>
      have hpool' : (setAt s.pools q (fun q => { q with active := act q }))[q]? = some pool := hpool
      rw [pools_setAt_same s.pools q _ pool0 hp0] at hpool'
      injection hpool' with hpool'; subst hpool'
      exact h q pool0 id hp0 (hsub pool0 hp0 id hid)
  · have hpool' : (setAt s.pools p (fun q => { q with active := act q }))[q]? = some pool := hpool
    rw [pools_setAt_other s.pools p q _ hqp] at hpool'
    exact h q pool id hpool' hid

theorem ainv_dial (S : Strs) (cfg : Cfg) (s : State) (p : Nat) (h : AInv s) :
    AInv (dial S cfg s p).1 ∧
    ∀ pool, s.pools[p]? = some pool → ∃ b, (dial S cfg s p).1.backends[(dial S cfg s p).2]? = some b ∧ b.addr = pool.addr := by
  unfold dial
  cases hp : s.pools[p]? with
  | none =>
    refine ⟨?_, fun pool hpool => by simp at hpool⟩
    exact ainv_keep _ _ (pools_fail s _) (tkeep_fail s _) h
  | some pool =>
    dsimp only
    refine ⟨?_, fun pool' hpool' => ?_⟩
    · intro q pool1 id hpool1 hid
      have hpool1' : (setAt s.pools p (fun q => { q with active := s.backends.length :: q.active }))[q]? = some pool1 := hpool1
      by_cases hqp : q = p
      · subst hqp
        rw [pools_setAt_same s.pools q _ pool hp] at hpool1'
        injection hpool1' with hpool1'; subst hpool1'
        rcases List.mem_cons.mp hid with he | he
        · subst he
          show ∃ b, (s.backends ++ [_])[s.backends.length]? = some b ∧ b.addr = _
          simp
        · obtain ⟨b, hb, ha⟩ := h q pool id hp he
          refine ⟨b, ?_, ha⟩
          show (s.backends ++ [_])[id]? = some b
          rw [getElem?_append_new]
          obtain ⟨hlt, _⟩ := List.getElem?_eq_some_iff.mp hb
          rw [if_pos hlt]; exact hb
      · rw [pools_setAt_other s.pools p q _ hqp] at hpool1'
        obtain ⟨b, hb, ha⟩ := h q pool1 id hpool1' hid
        refine ⟨b, ?_, ha⟩
        show (s.backends ++ [_])[id]? = some b
        rw [getElem?_append_new]
        obtain ⟨hlt, _⟩ := List.getElem?_eq_some_iff.mp hb
        rw [if_pos hlt]; exact hb
    · have e : pool = pool' := by injection hpool'
      subst e
      show ∃ b, (s.backends ++ [_])[s.backends.length]? = some b ∧ b.addr = _
      simp

theorem rotate_sub (backends : List Backend) (fuel : Nat) (active : List Nat) (id : Nat) (act' : List Nat)
    (h : rotate backends fuel active = some (id, act')) : id ∈ active ∧ ∀ x ∈ act', x ∈ active := by
  induction fuel generalizing active with
  | zero => simp [rotate] at h
  | succ fuel ih =>
    unfold rotate at h
    cases hl : active.getLast? with
    | none => rw [hl] at h; simp at h
    | some last =>
      rw [hl] at h
      dsimp only at h
      have hmem : last ∈ active := List.mem_of_getLast? hl
      have hsub : ∀ x ∈ active.dropLast, x ∈ active := fun x hx => List.dropLast_subset _ hx
      split at h
      · split at h
        · injection h with h; injection h with h1 h2; subst h1; subst h2
          exact ⟨hmem, fun x hx => by
            rcases List.mem_cons.mp hx with e | e
            · rw [e]; exact hmem
            · exact hsub x e⟩
        · obtain ⟨i1, i2⟩ := ih _ h
          exact ⟨hsub _ i1, fun x hx => hsub x (i2 x hx)⟩
      · obtain ⟨i1, i2⟩ := ih _ h
        exact ⟨hsub _ i1, fun x hx => hsub x (i2 x hx)⟩

/-- `Pool.Get` hands out a connection to the pool's own node -/
theorem ainv_poolGet (S : Strs) (cfg : Cfg) (s : State) (p : Nat) (h : AInv s) :
    AInv (poolGet S cfg s p).1 ∧
    ∀ pool, s.pools[p]? = some pool → ∃ b, (poolGet S cfg s p).1.backends[(poolGet S cfg s p).2]? = some b ∧ b.addr = pool.addr := by
  unfold poolGet
  cases hp : s.pools[p]? with
  | none =>
    refine ⟨?_, fun pool hpool => by simp at hpool⟩
    exact ainv_keep _ _ (pools_fail s _) (tkeep_fail s _) h
  | some pool =>
    dsimp only
    split
    · obtain ⟨d1, d2⟩ := ainv_dial S cfg s p h
      exact ⟨d1, fun pool' hpool' => d2 pool' (by rw [hp]; exact hpool')⟩
    · split
      · rename_i id act' hrot
        obtain ⟨hid, hsub⟩ := rotate_sub s.backends _ pool.active id act' hrot
        refine ⟨?_, fun pool' hpool' => ?_⟩
        · exact ainv_shrink s p (fun _ => act') h (fun pool0 hp0 x hx => by
            rw [hp] at hp0; injection hp0 with hp0; subst hp0; exact hsub x hx)
        · have e : pool = pool' := by injection hpool'
          subst e
          exact h p pool id hp hid
      · have h1 : AInv { s with pools := setAt s.pools p (fun q => { q with active := [] }) } :=
          ainv_shrink s p (fun _ => []) h (fun _ _ x hx => by simp at hx)
        obtain ⟨d1, d2⟩ := ainv_dial S cfg _ p h1
        refine ⟨d1, fun pool' hpool' => ?_⟩
        have e : pool = pool' := by injection hpool'
        subst e
        have hp1 : ({ s with pools := setAt s.pools p (fun q => { q with active := [] }) } : State).pools[p]? = some { pool with active := [] } :=
          pools_setAt_same s.pools p _ pool hp
        exact d2 { pool with active := [] } hp1


/-! ### every directly queued fragment sits on a connection of a node that owns its slot -/

/-- `addr` belongs to the replica set owning `slot` -/
def OwnerOK (s : State) (addr : Bytes) (slot : Nat) : Prop :=
  ∃ rs, slotOwner s.table slot = some rs ∧ (addr = rs.master ∨ addr ∈ rs.slaves)

def RoutedInv (s : State) : Prop :=
  ∀ (i : Nat) (b : Backend) (e : QEntry), s.backends[i]? = some b → e ∈ b.enq → e.direct.isSome = true →
    ∀ id slot, e.ref = .frag id slot → OwnerOK s b.addr slot

/-- nothing about pools, the table or addresses changes; queue histories only gain re-sends (not direct entries) -/
structure Still (s s' : State) : Prop where
  pools : s'.pools = s.pools
  table : s'.table = s.table
  back : ∀ (i : Nat) (b' : Backend), s'.backends[i]? = some b' →
    ∃ b, s.backends[i]? = some b ∧ b'.addr = b.addr ∧ ∀ e ∈ b'.enq, e ∈ b.enq ∨ e.direct = none
  fwd : ∀ (i : Nat) (b : Backend), s.backends[i]? = some b → ∃ b', s'.backends[i]? = some b' ∧ b'.addr = b.addr

theorem Still.refl (s : State) : Still s s :=
  ⟨rfl, rfl, fun _ b h => ⟨b, h, rfl, fun _ he => Or.inl he⟩, fun _ b h => ⟨b, h, rfl⟩⟩

theorem Still.trans {a b c : State} (h1 : Still a b) (h2 : Still b c) : Still a c := by
  refine ⟨by rw [h2.pools, h1.pools], by rw [h2.table, h1.table], fun i x'' hx'' => ?_, fun i x hx => ?_⟩
  · obtain ⟨x', hx', ha', he'⟩ := h2.back i x'' hx''
    obtain ⟨x, hx, ha, he⟩ := h1.back i x' hx'
    refine ⟨x, hx, by rw [ha', ha], fun e hm => ?_⟩
    rcases he' e hm with h | h
    · exact he e h
    · exact Or.inr h
  · obtain ⟨x', hx', ha⟩ := h1.fwd i x hx
    obtain ⟨x'', hx'', ha'⟩ := h2.fwd i x' hx'
    exact ⟨x'', hx'', by rw [ha', ha]⟩

theorem still_of_eq (s s' : State) (hp : s'.pools = s.pools) (ht : s'.table = s.table) (hb : s'.backends = s.backends) : Still s s' :=
  ⟨hp, ht, fun i b' h => ⟨b', by rw [← hb]; exact h, rfl, fun _ he => Or.inl he⟩, fun i b h => ⟨b, by rw [hb]; exact h, rfl⟩⟩

theorem ownerOK_table (s s' : State) (ht : s'.table = s.table) (addr : Bytes) (slot : Nat) (h : OwnerOK s addr slot) :
    OwnerOK s' addr slot := by
  unfold OwnerOK at *; rw [ht]; exact h

theorem ainv_still (s s' : State) (hk : Still s s') (h : AInv s) : AInv s' := by
  intro p pool id hpool hid
  rw [hk.pools] at hpool
  obtain ⟨b, hb, ha⟩ := h p pool id hpool hid
  obtain ⟨b', hb', ha'⟩ := hk.fwd id b hb
  exact ⟨b', hb', by rw [ha', ha]⟩

theorem routed_still (s s' : State) (hk : Still s s') (h : RoutedInv s) : RoutedInv s' := by
  intro i b' e hb' he hd id slot href
  obtain ⟨b, hb, ha, hsub⟩ := hk.back i b' hb'
  rcases hsub e he with h1 | h1
  · rw [ha]; exact ownerOK_table s s' hk.table _ _ (h i b e hb h1 hd id slot href)
  · rw [h1] at hd; simp at hd

def J (s : State) : Prop := AInv s ∧ RoutedInv s

theorem j_still (s s' : State) (hk : Still s s') (h : J s) : J s' := ⟨ainv_still s s' hk h.1, routed_still s s' hk h.2⟩

theorem still_fail (s : State) (w : String) : Still s (s.fail w) := by
  unfold State.fail
  split
  · exact Still.refl s
  · exact still_of_eq _ _ rfl rfl rfl

theorem still_updClient (s : State) (c : Nat) (f : Client → Client) : Still s (s.updClient c f) := still_of_eq _ _ rfl rfl rfl
theorem still_updReq (s : State) (mi : Nat) (f : Req → Req) : Still s (s.updReq mi f) := still_of_eq _ _ rfl rfl rfl
theorem still_closeClient (s : State) (c : Nat) : Still s (closeClient s c) := still_of_eq _ _ rfl rfl rfl
theorem still_dropTimeout (s : State) (f : FragRef) : Still s (dropTimeout s f) := still_of_eq _ _ rfl rfl rfl

theorem pools_flushClient (s : State) (c : Nat) : (flushClient s c).pools = s.pools := by
  unfold flushClient
  split
  · rfl
  · split
    · rfl
    · dsimp only
      split
      · rfl
      · split
        · split <;> rfl
        · rfl

theorem still_flushClient (s : State) (c : Nat) : Still s (flushClient s c) :=
  still_of_eq _ _ (pools_flushClient s c) (table_flushClient s c) (bsame_flushClient s c)

theorem still_deliver (s : State) (c : Nat) : Still s (deliver s c) := by
  unfold deliver
  split
  · split
    · exact Still.refl s
    · split
      · exact still_closeClient s c
      · exact still_flushClient s c
  · exact Still.refl s

theorem still_answerLocal (s : State) (c : Nat) (m : MMsg) (out : Bytes) : Still s (answerLocal s c m out) := by
  unfold answerLocal
  split
  · exact Still.refl s
  · dsimp only
    split <;> exact still_of_eq _ _ rfl rfl rfl

theorem still_acceptReq (s : State) (c : Nat) (m : MMsg) : Still s (acceptReq s c m).1 := by
  unfold acceptReq
  dsimp only
  split <;> exact still_of_eq _ _ rfl rfl rfl

/-- an update of one connection that keeps its address and only appends re-sends to its history -/
theorem still_updBackend (s : State) (b : Nat) (f : Backend → Backend) (ha : ∀ x, (f x).addr = x.addr)
    (he : ∀ x, ∀ e ∈ (f x).enq, e ∈ x.enq ∨ e.direct = none) : Still s (s.updBackend b f) := by
  refine ⟨rfl, rfl, fun i y' hy' => ?_, fun i y hy => ?_⟩
  · have hy'' : (setAt s.backends b f)[i]? = some y' := hy'
    rw [getElem?_setAt] at hy''
    cases hx : s.backends[i]? with
    | none => rw [hx] at hy''; split at hy'' <;> simp at hy''
    | some x =>
      rw [hx] at hy''
      split at hy''
      · simp at hy''; subst hy''; exact ⟨x, rfl, ha x, he x⟩
      · injection hy'' with hy''; subst hy''; exact ⟨x, rfl, rfl, fun _ h => Or.inl h⟩
  · by_cases hib : i = b
    · subst hib; exact ⟨f y, backend_upd_same s i f y hy, ha y⟩
    · exact ⟨y, by rw [backend_upd_other s b i f hib]; exact hy, rfl⟩

theorem still_enqueueOut_none (s : State) (b : Nat) (e : QEntry) (h : e.direct = none) : Still s (enqueueOut s b e) := by
  unfold enqueueOut
  refine Still.trans ?_ (still_of_eq (s.updBackend b _) _ rfl rfl rfl)
  refine still_updBackend s b _ (fun _ => rfl) ?_
  intro x e' he'
  simp only [List.mem_append, List.mem_singleton] at he'
  rcases he' with h1 | h1
  · exact Or.inl h1
  · right; rw [h1]; exact h

theorem still_writeSignal (S : Strs) (cfg : Cfg) (s : State) (b : Nat) : Still s (writeSignal S cfg s b) := by
  unfold writeSignal
  split
  · exact Still.refl s
  · dsimp only
    split
    · exact Still.refl s
    · refine Still.trans ?_ (still_of_eq (s.updBackend b _) _ rfl rfl rfl)
      exact still_updBackend s b _ (fun _ => rfl) (fun _ _ h => Or.inl h)

theorem still_cstep (S : Strs) (s : State) (f : FragRef) : Still s (cstep S s f) := by
  unfold cstep
  cases f with
  | asking => exact Still.refl s
  | probe => exact Still.refl s
  | frag mi slot =>
    dsimp only
    split
    · exact Still.refl s
    · split
      · exact Still.refl s
      · split
        · exact Still.refl s
        · exact Still.trans (still_updReq s mi _) (still_flushClient _ _)

theorem still_foldl_cstep (S : Strs) (refs : List FragRef) (s : State) : Still s (refs.foldl (cstep S) s) := by
  induction refs generalizing s with
  | nil => exact Still.refl s
  | cons f fs ih => exact Still.trans (still_cstep S s f) (ih _)

theorem still_foldl_dropTimeout (refs : List FragRef) (s : State) : Still s (refs.foldl dropTimeout s) := by
  induction refs generalizing s with
  | nil => exact Still.refl s
  | cons f fs ih => exact Still.trans (still_dropTimeout s f) (ih _)

theorem still_backendClose (S : Strs) (s : State) (b : Nat) : Still s (backendClose S s b) := by
  unfold backendClose
  split
  · exact Still.refl s
  · split
    · exact Still.refl s
    · dsimp only
      refine Still.trans ?_ (still_updBackend _ b _ (fun _ => rfl) (fun _ _ h => Or.inl h))
      refine Still.trans ?_ (still_foldl_dropTimeout _ _)
      rw [failFrags_eq]
      exact still_foldl_cstep S _ s

theorem still_expire (S : Strs) (s : State) (n : Nat) : Still s (expire S s n) := by
  unfold expire
  dsimp only
  refine Still.trans (b := List.foldl _ s ((liveDeadlines s).take n)) ?_ (still_of_eq _ _ rfl rfl rfl)
  generalize (liveDeadlines s).take n = ts
  induction ts generalizing s with
  | nil => exact Still.refl s
  | cons f fs ih =>
    rw [List.foldl_cons]
    refine Still.trans ?_ (ih _)
    split
    · split
      · exact Still.refl s
      · split
        · exact Still.refl s
        · split
          · exact Still.refl s
          · exact Still.trans (still_updReq s _ _) (still_flushClient _ _)
    · exact Still.refl s

theorem still_initPrelude (s : State) (b : Nat) (x : Backend) (view : Bytes) (s' : State) (v' : Bytes)
    (h : initPrelude s b x view = some (s', v')) : Still s s' := by
  unfold initPrelude at h
  split at h
  · split at h
    · simp at h
    · injection h with h; injection h with h1 _; subst h1
      exact still_updBackend s b _ (fun _ => rfl) (fun _ _ h => Or.inl h)
    · injection h with h; injection h with h1 _; subst h1; exact Still.refl s
    · injection h with h; injection h with h1 _; subst h1; exact still_fail s _
  · injection h with h; injection h with h1 _; subst h1; exact Still.refl s


theorem routed_bt (s s' : State) (hb : BKeep s s') (ht : TKeep s s') (h : RoutedInv s) : RoutedInv s' := by
  intro i b' e hb' he hd id slot href
  have henq := hb.enq i b' hb'
  cases hx : s.backends[i]? with
  | none => rw [henq] at he; simp [enqAt, hx] at he
  | some b =>
    obtain ⟨b'', hb'', ha⟩ := ht.addr i b hx
    rw [hb'] at hb''; injection hb'' with hb''; subst hb''
    rw [henq] at he
    simp only [enqAt, hx] at he
    rw [ha]
    exact ownerOK_table s s' ht.table _ _ (h i b e hx he hd id slot href)

theorem j_poolGet (S : Strs) (cfg : Cfg) (s : State) (p : Nat) (h : J s) :
    J (poolGet S cfg s p).1 ∧
    ∀ pool, s.pools[p]? = some pool → ∃ b, (poolGet S cfg s p).1.backends[(poolGet S cfg s p).2]? = some b ∧ b.addr = pool.addr := by
  obtain ⟨a1, a2⟩ := ainv_poolGet S cfg s p h.1
  exact ⟨⟨a1, routed_bt _ _ (bkeep_poolGet S cfg s p) (tkeep_poolGet S cfg s p) h.2⟩, a2⟩

theorem routeAdmissible_mem (T : Tables) (cfg : Cfg) (s : State) (ty : Nat) (rs : RSet) (addr : Bytes)
    (h : routeAdmissible T cfg s ty rs addr = true) : addr = rs.master ∨ addr ∈ rs.slaves := by
  unfold routeAdmissible at h
  dsimp only at h
  split at h
  · left; simpa using h
  · split at h
    · left; simpa using h
    · right
      have : addr ∈ liveSlaves s rs := by simpa using h
      unfold liveSlaves at this
      exact (List.mem_filter.mp this).1

theorem findPool_addr (pools : List Pool) (addr : Bytes) (p : Nat) (h : findPool pools addr = some p) :
    ∃ pool, pools[p]? = some pool ∧ pool.addr = addr := by
  unfold findPool at h
  obtain ⟨hlt, hpred, _⟩ := List.findIdx?_eq_some_iff_getElem.mp h
  refine ⟨pools[p], by simp [hlt], ?_⟩
  have := hpred
  simp at this
  exact this.1

/-- a target handed out by routing: an existing connection of a node that owns the slot -/
def TargetOK (s : State) (t : Nat × Nat) : Prop := ∃ b, s.backends[t.2]? = some b ∧ OwnerOK s b.addr t.1

theorem targetOK_tkeep (s s' : State) (hk : TKeep s s') (t : Nat × Nat) (h : TargetOK s t) : TargetOK s' t := by
  obtain ⟨b, hb, ho⟩ := h
  obtain ⟨b', hb', ha⟩ := hk.addr t.2 b hb
  exact ⟨b', hb', by rw [ha]; exact ownerOK_table s s' hk.table _ _ ho⟩

theorem resolve_j (T : Tables) (S : Strs) (cfg : Cfg) (ty : Nat) (s : State) (vs : List (Nat × Bytes)) (acc : List (Nat × Nat))
    (h : J s) (hacc : ∀ t ∈ acc, TargetOK s t) :
    J (resolve T S cfg ty s vs acc).1 ∧ ∀ t ∈ (resolve T S cfg ty s vs acc).2.1, TargetOK (resolve T S cfg ty s vs acc).1 t := by
  induction vs generalizing s acc with
  | nil => exact ⟨h, hacc⟩
  | cons v vs ih =>
    obtain ⟨slot, addr⟩ := v
    unfold resolve
    split
    · exact ⟨h, hacc⟩
    · rename_i rs hown
      split
      · exact ⟨j_still _ _ (still_fail s _) h, fun t ht => targetOK_tkeep _ _ (tkeep_fail s _) t (hacc t ht)⟩
      · rename_i hadm
        split
        · exact ⟨h, hacc⟩
        · split
          · exact ⟨h, hacc⟩
          · rename_i p hp
            obtain ⟨pool, hpool, hpa⟩ := findPool_addr s.pools addr p hp
            obtain ⟨hj, hget⟩ := j_poolGet S cfg s p h
            obtain ⟨b, hb, hba⟩ := hget pool hpool
            have hmem := routeAdmissible_mem T cfg s ty rs addr (by simpa using hadm)
            have htk := tkeep_poolGet S cfg s p
            apply ih (poolGet S cfg s p).1 (acc ++ [(slot, (poolGet S cfg s p).2)]) hj
            intro t ht
            rcases List.mem_append.mp ht with h1 | h1
            · exact targetOK_tkeep _ _ htk t (hacc t h1)
            · simp at h1; subst h1
              refine ⟨b, hb, rs, ?_, ?_⟩
              · rw [htk.table]; exact hown
              · rw [hba, hpa]; exact hmem

theorem routed_enqueueOut (s : State) (tb : Nat) (e : QEntry) (id slot : Nat) (href : e.ref = .frag id slot)
    (ht : TargetOK s (slot, tb)) (h : RoutedInv s) : RoutedInv (enqueueOut s tb e) := by
  intro i b' e' hb' he' hd id' slot' href'
  obtain ⟨x, hx, hox⟩ := ht
  have hb'' : (s.updBackend tb (fun x => { x with outQ := x.outQ ++ [e], enq := x.enq ++ [e] })).backends[i]? = some b' := hb'
  by_cases hi : i = tb
  · subst hi
    rw [backend_upd_same s i _ x hx] at hb''
    injection hb'' with hb''; subst hb''
    simp only [List.mem_append, List.mem_singleton] at he'
    rcases he' with h1 | h1
    · exact h i x e' hx h1 hd id' slot' href'
    · subst h1
      rw [href] at href'; injection href' with _ hs; subst hs
      exact hox
  · rw [backend_upd_other s tb i _ hi] at hb''
    exact h i b' e' hb'' he' hd id' slot' href'

theorem j_foldl_enqueue (targets : List (Nat × Nat)) (g : Nat × Nat → QEntry) (id : Nat) (s : State)
    (hg : ∀ t, (g t).ref = .frag id t.1) (h : J s) (hok : ∀ t ∈ targets, TargetOK s t) :
    J (targets.foldl (fun st t => enqueueOut st t.2 (g t)) s) := by
  induction targets generalizing s with
  | nil => exact h
  | cons t ts ih =>
    rw [List.foldl_cons]
    apply ih
    · refine ⟨ainv_keep s _ rfl (tkeep_enqueueOut s t.2 (g t)) h.1, ?_⟩
      exact routed_enqueueOut s t.2 (g t) id t.1 (hg t) (hok t List.mem_cons_self) h.2
    · intro t' ht'
      exact targetOK_tkeep _ _ (tkeep_enqueueOut s t.2 (g t)) t' (hok t' (List.mem_cons_of_mem _ ht'))

theorem j_forward (T : Tables) (S : Strs) (cfg : Cfg) (s : State) (c : Nat) (cm : CDecode.CMsg) (ch : ReqChoice)
    (h : J s) : J (forward T S cfg s c cm ch) := by
  unfold forward
  dsimp only
  split
  · exact j_still _ _ (still_fail s _) h
  · obtain ⟨h1, hok⟩ := resolve_j T S cfg cm.type s ch.visit [] h (by simp)
    generalize resolve T S cfg cm.type s ch.visit [] = res at h1 hok
    obtain ⟨s1, targets, rej⟩ := res
    simp only at h1 hok
    cases rej with
    | some e => exact j_still _ _ (still_answerLocal s1 c _ _) h1
    | none =>
      simp only
      split
      · exact h1
      · split
        · exact j_still _ _ (still_fail s1 _) h1
        · have hst := still_acceptReq s1 c ({ ofCMsg cm with frags := targets.filterMap (fun t => getFrag (ofCMsg cm) t.1) } : MMsg)
          generalize acceptReq s1 c _ = acc at hst
          obtain ⟨s2, id⟩ := acc
          simp only at hst ⊢
          have htk : TKeep s1 s2 := ⟨hst.table, hst.fwd⟩
          apply j_foldl_enqueue targets _ id s2 (fun _ => rfl) (j_still _ _ hst h1)
          intro t ht
          exact targetOK_tkeep _ _ htk t (hok t ht)

theorem j_onRequest (T : Tables) (S : Strs) (cfg : Cfg) (s : State) (c : Nat) (cm : CDecode.CMsg) (ch : ReqChoice)
    (h : J s) : J (onRequest T S cfg s c cm ch).1 := by
  unfold onRequest
  split
  · exact j_still _ _ (still_answerLocal s c _ _) h
  · exact j_forward T S cfg s c cm ch h

theorem j_creadLoop (T : Tables) (S : Strs) (cfg : Cfg) (slotFn : Bytes → Nat) (fuel : Nat) :
    ∀ (s : State) (c : Nat) (view : Bytes) (chs : List ReqChoice), J s → J (creadLoop T S cfg slotFn fuel s c view chs) := by
  induction fuel with
  | zero => intro s c view chs h; exact h
  | succ fuel ih =>
    intro s c view chs h
    unfold creadLoop
    split
    · exact j_still _ _ (still_closeClient s c) h
    · exact j_still _ _ (still_fail s _) h
    · exact j_still _ _ (still_updClient s c _) h
    · rename_i cm n _
      dsimp only
      have hg := j_onRequest T S cfg s c cm
        (if (localAnswer T S cfg cm).isNone = true then (chs.head?.getD { visit := [] }, chs.tail) else ({ visit := [] }, chs)).1 h
      generalize onRequest T S cfg s c cm
        (if (localAnswer T S cfg cm).isNone = true then (chs.head?.getD { visit := [] }, chs.tail) else ({ visit := [] }, chs)).1 = res at hg
      obtain ⟨s1, quit⟩ := res
      simp only at hg ⊢
      split
      · exact hg
      · split
        · split
          · split
            · exact j_still _ _ (still_closeClient s1 c) hg
            · exact j_still _ _ (still_updClient s1 c _) hg
          · exact hg
        · split
          · split
            · exact hg
            · exact ih s1 c _ _ hg
          · exact hg

theorem j_clientBytes (T : Tables) (S : Strs) (cfg : Cfg) (slotFn : Bytes → Nat) (s : State) (c : Nat)
    (chunk : Bytes) (chs : List ReqChoice) (h : J s) : J (clientBytes T S cfg slotFn s c chunk chs) := by
  unfold clientBytes
  split
  · exact h
  · split
    · exact h
    · exact j_creadLoop T S cfg slotFn _ _ c _ chs (j_still _ _ (still_updClient s c _) h)

theorem j_onMoved (S : Strs) (cfg : Cfg) (s : State) (mi slot : Nat) (isAsk : Bool) (addr : Bytes) (h : J s) :
    J (onMoved S cfg s mi slot isAsk addr) := by
  unfold onMoved
  split
  · exact j_still _ _ (still_fail s _) h
  · dsimp only
    have h1 := j_still _ _ (still_updReq s mi (fun r => { r with m := setFrag r.m slot (fun f => { f with redirects := f.redirects + 1 }) })) h
    split
    · exact j_still _ _ (Still.trans (still_updReq _ mi _) (still_flushClient _ _)) h1
    · split
      · exact j_still _ _ (Still.trans (still_updReq _ mi _) (still_flushClient _ _)) h1
      · rename_i p _
        obtain ⟨h2, _⟩ := j_poolGet S cfg _ p h1
        apply j_still _ _ (still_enqueueOut_none _ _ _ rfl)
        split
        · exact j_still _ _ (still_enqueueOut_none _ _ _ rfl) h2
        · exact h2

theorem j_onFragReply (T : Tables) (S : Strs) (cfg : Cfg) (slotFn : Bytes → Nat) (s : State) (mi slot rtype : Nat)
    (body : Bytes) (h : J s) : J (onFragReply T S cfg slotFn s mi slot rtype body).1 := by
  unfold onFragReply
  split
  · exact j_still _ _ (still_fail s _) h
  · dsimp only
    generalize onReply T S.merge slotFn cfg.limit _ slot rtype body = res
    obtain ⟨m', sig⟩ := res
    dsimp only
    have h1 := j_still _ _ (still_updReq s mi (fun r => { r with m := m' })) h
    cases sig with
    | panic => exact j_still _ _ (still_fail _ _) h1
    | dropped => exact h1
    | waiting => exact h1
    | redirect => exact j_onMoved S cfg _ mi slot _ _ h1
    | ready =>
      dsimp only
      split
      · exact j_still _ _ (still_fail _ _) h1
      · exact j_still _ _ (still_deliver _ _) h1

theorem j_sreadLoop (T : Tables) (S : Strs) (cfg : Cfg) (slotFn : Bytes → Nat) (fuel : Nat) :
    ∀ (s : State) (b : Nat) (view : Bytes), J s → J (sreadLoop T S cfg slotFn fuel s b view) := by
  induction fuel with
  | zero => intro s b view h; exact h
  | succ fuel ih =>
    intro s b view h
    unfold sreadLoop
    split
    · exact h
    · rename_i x _
      split
      · exact h
      · split
        · exact j_still _ _ (still_updBackend s b _ (fun _ => rfl) (fun _ _ h => Or.inl h)) h
        · rename_i s1 v1 hinit
          have h1 : J s1 := j_still _ _ (still_initPrelude s b x view s1 v1 hinit) h
          split
          · exact h1
          · split
            · exact j_still _ _ (still_updBackend s1 b _ (fun _ => rfl) (fun _ _ h => Or.inl h)) h1
            · exact j_still _ _ (still_fail s1 _) h1
            · rename_i rtype n _
              split
              · exact j_still _ _ (still_fail s1 _) h1
              · rename_i f inQ' _
                dsimp only
                have h2 : J (dropTimeout (s1.updBackend b (fun x => { x with inQ := inQ' })) f) := by
                  apply j_still _ _ (still_dropTimeout _ f)
                  exact j_still _ _ (still_updBackend s1 b _ (fun _ => rfl) (fun _ _ h => Or.inl h)) h1
                split
                · exact ih _ b _ h2
                · split
                  · exact j_still _ _ (still_fail _ _) h2
                  · exact ih _ b _ h2
                · rename_i mi slot _
                  have hg := j_onFragReply T S cfg slotFn _ mi slot rtype (v1.take n) h2
                  split
                  · rename_i s' heq
                    rw [heq] at hg
                    exact ih s' b _ hg
                  · rename_i s' heq
                    rw [heq] at hg
                    exact hg

theorem j_backendBytes (T : Tables) (S : Strs) (cfg : Cfg) (slotFn : Bytes → Nat) (s : State) (b : Nat) (chunk : Bytes)
    (h : J s) : J (backendBytes T S cfg slotFn s b chunk) := by
  unfold backendBytes
  split
  · exact h
  · split
    · exact h
    · exact j_sreadLoop T S cfg slotFn _ _ b _ (j_still _ _ (still_updBackend s b _ (fun _ => rfl) (fun _ _ h => Or.inl h)) h)

theorem still_runTasks (S : Strs) (cfg : Cfg) (s : State) : Still s (runTasks S cfg s) := by
  unfold runTasks
  have : ∀ (ts : List Task) (s0 : State), Still s0 (ts.foldl (runTask S cfg (backendClose S)) s0) := by
    intro ts
    induction ts with
    | nil => intro s0; exact Still.refl s0
    | cons t ts ih =>
      intro s0
      refine Still.trans ?_ (ih _)
      cases t with
      | write b => exact still_writeSignal S cfg s0 b
      | close b => exact still_backendClose S s0 b
  exact Still.trans (this s.tasks s) (still_of_eq _ _ rfl rfl rfl)

theorem j_poolRemove (s : State) (p : Nat) (h : J s) : J (poolRemove s p) := by
  unfold poolRemove
  split
  · exact h
  · split
    · exact h
    · refine ⟨?_, ?_⟩
      · have := ainv_shrink s p (fun _ => []) h.1 (fun _ _ x hx => by simp at hx)
        intro q pool id hpool hid
        -- the pool list differs from `ainv_shrink`'s only in the `removed` flag
        have hpool' : (setAt s.pools p (fun q => { q with removed := true, active := [] }))[q]? = some pool := hpool
        by_cases hqp : q = p
        · subst hqp
          rw [getElem?_setAt] at hpool'
          simp only [↓reduceIte] at hpool'
          cases hq : s.pools[q]? with
          | none => rw [hq] at hpool'; simp at hpool'
          | some p0 => rw [hq] at hpool'; simp at hpool'; subst hpool'; simp at hid
        · rw [pools_setAt_other s.pools p q _ hqp] at hpool'
          exact h.1 q pool id hpool' hid
      · intro i b e hb he hd id slot href
        exact h.2 i b e hb he hd id slot href

theorem j_step (T : Tables) (S : Strs) (cfg : Cfg) (slotFn : Bytes → Nat) (s : State) (e : Event) (h : J s) :
    J (step T S cfg slotFn s e) := by
  unfold step
  split
  · exact h
  · cases e with
    | connect admitted => exact j_still _ _ (still_of_eq s { s with clients := _ } rfl rfl rfl) h
    | clientBytes c chunk chs => exact j_clientBytes T S cfg slotFn s c chunk chs h
    | clientClose c => exact j_still _ _ (still_closeClient s c) h
    | runTasks => exact j_still _ _ (still_runTasks S cfg s) h
    | backendBytes b chunk => exact j_backendBytes T S cfg slotFn s b chunk h
    | backendClose b => exact j_still _ _ (still_backendClose S s b) h
    | expire n => exact j_still _ _ (still_expire S s n) h
    | poolRemove p => exact j_poolRemove s p h

theorem j_run (T : Tables) (S : Strs) (cfg : Cfg) (slotFn : Bytes → Nat) (es : List Event) (s : State) (h : J s) :
    J (run T S cfg slotFn s es) := by
  unfold run
  induction es generalizing s with
  | nil => exact h
  | cons e es ih => exact ih _ (j_step T S cfg slotFn s e h)

theorem j_init (S : Strs) (cfg : Cfg) (pools : List (Bytes × Bool)) (table : List (Nat × Nat × RSet)) :
    J (init S cfg pools table) := by
  unfold init
  dsimp only
  have : ∀ (l : List Nat) (s : State), J s → J (l.foldl (fun s p => (poolGet S cfg s p).1) s) := by
    intro l
    induction l with
    | nil => intro s h; exact h
    | cons p l ih => intro s h; exact ih _ (j_poolGet S cfg s p h).1
  apply this
  refine ⟨?_, ?_⟩
  · intro p pool id hpool hid
    simp only [List.getElem?_map] at hpool
    cases hq : pools[p]? with
    | none => rw [hq] at hpool; simp at hpool
    | some q => rw [hq] at hpool; simp at hpool; subst hpool; simp at hid
  · intro i b e hb
    simp at hb


end RcVerif.Lemmas.SimRoute
