import RcVerif.Model.ConnIO
import RcVerif.Lemmas.ElasticBuf
/-
  The write path of a connection keeps the byte stream intact whatever the kernel accepts: wire ++ backlog is
  always exactly what was handed to `write` / `writev`, in order.
-/
namespace RcVerif.Lemmas.ConnIOBuf
open RcVerif RcVerif.Elastic RcVerif.ConnIO RcVerif.Lemmas.ElasticBuf RcVerif.Lemmas.LListBuf

theorem trimSent_flatten (bs : List Bytes) (sent : Nat) (h : sent < bs.flatten.length) :
    (trimSent bs sent).flatten = bs.flatten.drop sent := by
  induction bs generalizing sent with
  | nil => simp at h
  | cons b rest ih =>
    unfold trimSent
    split
    · rename_i hlt
      simp [List.drop_append_of_le_length (Nat.le_of_lt hlt)]
    · rename_i hge
      simp only [List.flatten_cons, List.length_append] at h
      rw [ih (sent - b.length) (by omega)]
      simp only [List.flatten_cons]
      rw [List.drop_append, List.drop_of_length_le (l := b) (by omega)]; simp

/-- everything handed to the connection so far, in order: what the kernel took followed by the backlog -/
def stream (c : Conn) : Bytes := c.wire ++ c.out.content

structure CInv (pool : Pool) (c : Conn) : Prop where
  pool : PInv pool
  out : BInv c.out

theorem content_of_isEmpty (b : EBuf) (he : b.isEmpty = true) : b.content = [] := by
  unfold EBuf.isEmpty at he
  simp only [Bool.and_eq_true] at he
  have h1 : b.ring.content = [] := by
    have h0 := he.1
    unfold ERing.isEmpty at h0
    unfold ERing.content
    cases hr : b.ring.rb with
    | none => rfl
    | some r => simp [hr] at h0; simp [Ring.content, h0]
  have h2 := list_empty_content b.list he.2
  simp [EBuf.content, h1, h2]

/-- **`conn.writev`**: whatever the kernel accepts, the stream grows by exactly the slices, in order -/
theorem writev_spec (pool : Pool) (c : Conn) (h : CInv pool c) (bs : List Bytes) (acc : Nat) :
    CInv (writev pool c bs acc).1 (writev pool c bs acc).2 ∧
    stream (writev pool c bs acc).2 = stream c ++ bs.flatten := by
  unfold writev
  split
  · obtain ⟨w1, w2, w3⟩ := ebuf_writev_spec pool c.out h.pool h.out bs
    exact ⟨⟨w1, w2⟩, by simp [stream, w3]⟩
  · rename_i hne
    have he : c.out.isEmpty = true := by simpa using hne
    have hc := content_of_isEmpty c.out he
    dsimp only
    split
    · rename_i hlt
      obtain ⟨w1, w2, w3⟩ := ebuf_writev_spec pool c.out h.pool h.out (trimSent bs (min acc bs.flatten.length))
      refine ⟨⟨w1, w2⟩, ?_⟩
      simp only [stream, w3, hc, List.nil_append, List.append_nil, List.append_assoc]
      rw [trimSent_flatten bs _ hlt, List.take_append_drop]
    · rename_i hge
      refine ⟨⟨h.pool, h.out⟩, ?_⟩
      simp only [stream, hc, List.append_nil]
      rw [List.take_of_length_le (by omega)]

/-- **`conn.write`** -/
theorem write_spec (pool : Pool) (c : Conn) (h : CInv pool c) (data : Bytes) (acc : Nat) :
    CInv (write pool c data acc).1 (write pool c data acc).2 ∧
    stream (write pool c data acc).2 = stream c ++ data := by
  unfold write
  split
  · obtain ⟨w1, w2, w3⟩ := ebuf_write_spec pool c.out h.pool h.out data
    exact ⟨⟨w1, w2⟩, by simp [stream, w3]⟩
  · rename_i hne
    have he : c.out.isEmpty = true := by simpa using hne
    have hc := content_of_isEmpty c.out he
    dsimp only
    split
    · obtain ⟨w1, w2, w3⟩ := ebuf_write_spec pool c.out h.pool h.out (data.drop (min acc data.length))
      refine ⟨⟨w1, w2⟩, ?_⟩
      simp only [stream, w3, hc, List.nil_append, List.append_assoc, List.take_append_drop]
    · rename_i hge
      refine ⟨⟨h.pool, h.out⟩, ?_⟩
      simp only [stream, hc, List.append_nil]
      rw [List.take_of_length_le (by omega)]

/-- what a writable event offers to the kernel is a prefix of the backlog -/
theorem offered_prefix (c : Conn) (h : BInv c.out) : ∃ rest, c.out.content = offered c ++ rest := by
  obtain ⟨⟨r, hr⟩, _⟩ := ebuf_peek_spec c.out h (-1)
  unfold offered
  dsimp only
  split
  · -- the first `iovMax` slices
    refine ⟨((c.out.peek (-1)).drop Gen.iovMax).flatten ++ r, ?_⟩
    rw [hr, ← List.append_assoc, ← List.flatten_append, List.take_append_drop]
  · cases hp : c.out.peek (-1) with
    | nil => exact ⟨c.out.content, by simp⟩
    | cons x xs =>
      rw [hp] at hr
      exact ⟨xs.flatten ++ r, by simp [hr]⟩

/-- **`eventloop.write`**: a writable event moves a prefix of the backlog to the wire; the stream is unchanged -/
theorem flush_spec (pool : Pool) (c : Conn) (h : CInv pool c) (acc : Nat) :
    CInv (flush pool c acc).1 (flush pool c acc).2 ∧ stream (flush pool c acc).2 = stream c := by
  unfold flush
  dsimp only
  obtain ⟨rest, hrest⟩ := offered_prefix c h.out
  obtain ⟨d1, d2, d3, _⟩ := ebuf_discard_spec pool c.out h.pool h.out ((min acc (offered c).length : Nat) : Int)
  simp only [Int.toNat_natCast] at d3
  refine ⟨⟨d1, d2⟩, ?_⟩
  simp only [stream, d3, List.append_assoc]
  congr 1
  rw [hrest]
  rw [List.drop_append_of_le_length (by omega), ← List.append_assoc, List.take_append_drop]


/-! ### the pending-write queue and the write signal -/

/-- everything handed to the connection, queued requests included -/
def qstream (c : Conn) : Bytes := stream c ++ c.queue.flatten

theorem writev_queue (pool : Pool) (c : Conn) (bs : List Bytes) (acc : Nat) : (writev pool c bs acc).2.queue = c.queue := by
  unfold writev
  split
  · rfl
  · dsimp only
    split <;> rfl

theorem flush_queue (pool : Pool) (c : Conn) (acc : Nat) : (flush pool c acc).2.queue = c.queue := by
  unfold flush
  rfl

theorem enqueue_spec (pool : Pool) (c : Conn) (h : CInv pool c) (req : Bytes) :
    CInv pool (enqueue c req) ∧ qstream (enqueue c req) = qstream c ++ req := by
  refine ⟨⟨h.pool, h.out⟩, ?_⟩
  simp [qstream, enqueue, stream]

theorem writeChunks_spec (fuel : Nat) (pool : Pool) (c : Conn) (h : CInv pool c) (bs : List Bytes) (accs : List Nat)
    (hf : bs.length < fuel) (hio : 0 < Gen.iovMax) :
    CInv (writeChunks pool c fuel bs accs).1 (writeChunks pool c fuel bs accs).2 ∧
    stream (writeChunks pool c fuel bs accs).2 = stream c ++ bs.flatten ∧
    (writeChunks pool c fuel bs accs).2.queue = c.queue := by
  induction fuel generalizing pool c bs accs with
  | zero => exact absurd hf (by omega)
  | succ fuel ih =>
    unfold writeChunks
    split
    · rename_i he
      have : bs = [] := by simpa using he
      subst this
      exact ⟨h, by simp, rfl⟩
    · rename_i hne
      have hpos : 0 < bs.length := by
        cases bs with
        | nil => simp at hne
        | cons _ _ => simp
      obtain ⟨w1, w2⟩ := writev_spec pool c h (bs.take Gen.iovMax) (accs.headD 0)
      have hq := writev_queue pool c (bs.take Gen.iovMax) (accs.headD 0)
      have hlen : (bs.drop Gen.iovMax).length < fuel := by
        rw [List.length_drop]; omega
      obtain ⟨i1, i2, i3⟩ := ih _ _ w1 (bs.drop Gen.iovMax) accs.tail hlen
      refine ⟨i1, ?_, by rw [i3, hq]⟩
      rw [i2, w2, List.append_assoc, ← List.flatten_append, List.take_append_drop]

/-- **`handleWriteSignal`**: whatever the kernel accepts in each vectored write, the queued requests move - in queue
    order - behind what is already on the wire and in the backlog; nothing is lost, duplicated or reordered -/
theorem writeSignal_spec (pool : Pool) (c : Conn) (h : CInv pool c) (accs : List Nat) (hio : 0 < Gen.iovMax) :
    CInv (writeSignal pool c accs).1 (writeSignal pool c accs).2 ∧
    qstream (writeSignal pool c accs).2 = qstream c ∧ (writeSignal pool c accs).2.queue = [] := by
  unfold writeSignal
  dsimp only
  have h0 : CInv pool { c with queue := [] } := ⟨h.pool, h.out⟩
  obtain ⟨i1, i2, i3⟩ := writeChunks_spec (c.queue.length + 1) pool { c with queue := [] } h0 c.queue accs (by omega) hio
  obtain ⟨w1, w2⟩ := writev_spec _ _ i1 [] 0
  have hq := writev_queue (writeChunks pool { c with queue := [] } (c.queue.length + 1) c.queue accs).1
    (writeChunks pool { c with queue := [] } (c.queue.length + 1) c.queue accs).2 [] 0
  refine ⟨w1, ?_, by rw [hq, i3]⟩
  simp only [qstream, w2, i2, hq, i3, List.flatten_nil, List.append_nil]
  simp [stream]

end RcVerif.Lemmas.ConnIOBuf
