import RcVerif.Model.SDecode
import RcVerif.Spec.Resp
import RcVerif.Lemmas.Frame
/-
  Framing of backend replies: every well-formed RESP2 reply value, nested to any
  depth, is framed exactly and classified by its first line, whatever follows it.
-/
namespace RcVerif.Lemmas.Reply
open RcVerif RcVerif.Resp RcVerif.SDecode RcVerif.Spec RcVerif.Lemmas.Decimal RcVerif.Lemmas.Frame

mutual
/-- well-formed reply values: lines without LF, lengths and counts the decoder can express -/
def WF : Reply → Prop
  | .status l => (10 : UInt8) ∉ l
  | .error l => (10 : UInt8) ∉ l
  | .integer l => (10 : UInt8) ∉ l
  | .bulk b => Small b.length
  | .nullBulk => True
  | .array xs => Small xs.length ∧ WFs xs
  | .nullArray => True
def WFs : List Reply → Prop
  | [] => True
  | x :: xs => WF x ∧ WFs xs
end

mutual
/-- recursion budget `readReply` needs for a value -/
def need : Reply → Nat
  | .array xs => 1 + needs xs
  | _ => 1
def needs : List Reply → Nat
  | [] => 1
  | x :: xs => 1 + max (need x) (needs xs)
end

/-- the type `readReply` assigns -/
def cls (T : Tables) : Reply → Nat
  | .status l => classifyStatus T (43 :: l)
  | .error l => classifyError T (45 :: l)
  | .integer _ => T.rInteger
  | .bulk _ => T.rBulk
  | .nullBulk => T.rBulk
  | .array _ => T.rMultibulk
  | .nullArray => T.cUnknown

theorem readLine_simple (c : UInt8) (l t : Bytes) (hc : c ≠ 10) (hl : (10 : UInt8) ∉ l) :
    readLine ((c :: l) ++ 13 :: 10 :: t) = .ok (c :: l, t) :=
  readLine_line (c :: l) t (by simp) (by simp only [List.mem_cons, not_or]; exact ⟨fun e => hc e.symm, hl⟩)

mutual
theorem readReply_enc (T : Tables) : ∀ (v : Reply) (t : Bytes) (fuel : Nat), WF v → need v ≤ fuel →
    readReply T fuel (encReply v ++ t) = .ok (cls T v, t)
  | .status l, t, fuel, h, hf => by
    cases fuel with
    | zero => simp [need] at hf
    | succ f =>
      have : encReply (.status l) ++ t = (43 :: l) ++ 13 :: 10 :: t := by simp [encReply]
      rw [this]; unfold readReply; rw [readLine_simple 43 l t (by decide) h]; rfl
  | .error l, t, fuel, h, hf => by
    cases fuel with
    | zero => simp [need] at hf
    | succ f =>
      have : encReply (.error l) ++ t = (45 :: l) ++ 13 :: 10 :: t := by simp [encReply]
      rw [this]; unfold readReply; rw [readLine_simple 45 l t (by decide) h]; rfl
  | .integer l, t, fuel, h, hf => by
    cases fuel with
    | zero => simp [need] at hf
    | succ f =>
      have : encReply (.integer l) ++ t = (58 :: l) ++ 13 :: 10 :: t := by simp [encReply]
      rw [this]; unfold readReply; rw [readLine_simple 58 l t (by decide) h]; rfl
  | .bulk b, t, fuel, h, hf => by
    cases fuel with
    | zero => simp [need] at hf
    | succ f =>
      have hshape : encReply (.bulk b) ++ t = (36 :: itoa b.length) ++ 13 :: 10 :: (b ++ 13 :: 10 :: t) := by
        simp [encReply, encBulk]
      rw [hshape]; unfold readReply
      rw [readLine_simple 36 (itoa b.length) _ (by decide) (lf_not_mem_itoa _)]
      simp only [parseLen_itoa b.length h]
      have : ¬ (Int.ofNat b.length < 0) := by simp
      simp only [this, ↓reduceIte]
      have h1 : (Int.ofNat b.length).toNat = b.length := rfl
      rw [h1, readN_append b (13 :: 10 :: t) (by simp)]
      simp only
      have h2 : readN 2 (13 :: 10 :: t) = .ok ([13, 10], t) := by
        have := readN_append [13, 10] t (by simp)
        simpa using this
      rw [h2]; simp [cls]
  | .nullBulk, t, fuel, h, hf => by
    cases fuel with
    | zero => simp [need] at hf
    | succ f =>
      have : encReply .nullBulk ++ t = [36, 45, 49] ++ 13 :: 10 :: t := by simp [encReply]
      rw [this]; unfold readReply
      rw [readLine_line [36, 45, 49] t (by simp) (by decide)]
      simp [parseLen, cls]
  | .nullArray, t, fuel, h, hf => by
    cases fuel with
    | zero => simp [need] at hf
    | succ f =>
      have : encReply .nullArray ++ t = [42, 45, 49] ++ 13 :: 10 :: t := by simp [encReply]
      rw [this]; unfold readReply
      rw [readLine_line [42, 45, 49] t (by simp) (by decide)]
      simp [parseLen, cls]
  | .array xs, t, fuel, h, hf => by
    cases fuel with
    | zero => simp [need] at hf
    | succ f =>
      have hshape : encReply (.array xs) ++ t = (42 :: itoa xs.length) ++ 13 :: 10 :: (encReplies xs ++ t) := by
        simp [encReply]
      rw [hshape]; unfold readReply
      rw [readLine_simple 42 (itoa xs.length) _ (by decide) (lf_not_mem_itoa _)]
      simp only [parseLen_itoa xs.length h.1]
      have : ¬ (Int.ofNat xs.length < 0) := by simp
      simp only [this, ↓reduceIte]
      have h1 : (Int.ofNat xs.length).toNat = xs.length := rfl
      rw [h1, readReplies_enc T xs t f h.2 (by simp [need] at hf; omega)]
      simp [cls]
theorem readReplies_enc (T : Tables) : ∀ (xs : List Reply) (t : Bytes) (fuel : Nat), WFs xs → needs xs ≤ fuel →
    readReplies T fuel xs.length (encReplies xs ++ t) = .ok t
  | [], t, fuel, _, hf => by
    cases fuel with
    | zero => simp [needs] at hf
    | succ f => simp [readReplies, encReplies]
  | x :: xs, t, fuel, h, hf => by
    cases fuel with
    | zero => simp [needs] at hf
    | succ f =>
      have hshape : encReplies (x :: xs) ++ t = encReply x ++ (encReplies xs ++ t) := by simp [encReplies]
      simp only [List.length_cons, readReplies, hshape]
      have hfx : need x ≤ f := by simp [needs] at hf; omega
      have hfs : needs xs ≤ f := by simp [needs] at hf; omega
      rw [readReply_enc T x _ f h.1 hfx]
      simp only
      exact readReplies_enc T xs t f h.2 hfs
end

mutual
theorem need_le : ∀ v : Reply, need v ≤ (encReply v).length ∧ 3 ≤ (encReply v).length
  | .status l => by simp [need, encReply]
  | .error l => by simp [need, encReply]
  | .integer l => by simp [need, encReply]
  | .bulk b => by simp [need, encReply, encBulk]; omega
  | .nullBulk => by simp [need, encReply]
  | .nullArray => by simp [need, encReply]
  | .array xs => by
    have := needs_le xs
    have h1 : 0 < (itoa xs.length).length := List.length_pos_iff.mpr (itoa_ne_nil _)
    simp [need, encReply]; omega
theorem needs_le : ∀ xs : List Reply, needs xs ≤ 1 + (encReplies xs).length
  | [] => by simp [needs, encReplies]
  | x :: xs => by
    have hx := need_le x
    have hs := needs_le xs
    simp [needs, encReplies]; omega
end

/-- **framing**: every well-formed RESP2 reply, nested to any depth, followed by anything, is framed
    exactly and classified by its first line -/
theorem frameReply_enc (T : Tables) (v : Reply) (t : Bytes) (h : WF v) :
    frameReply T (encReply v ++ t) = .ok (cls T v) (encReply v).length := by
  have hl := need_le v
  unfold frameReply
  have h0 : ¬ (encReply v ++ t).length < 1 := by rw [List.length_append]; omega
  simp only [h0, ↓reduceIte]
  have hfuel : need v ≤ (encReply v ++ t).length * 2 + 4 := by
    rw [List.length_append]; omega
  rw [readReply_enc T v t _ h hfuel]
  simp
end RcVerif.Lemmas.Reply
