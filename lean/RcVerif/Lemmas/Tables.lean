import RcVerif.Model.Inst
import RcVerif.Model.CDecode
import RcVerif.Spec.RefTables
/-
  Facts about the command tables REGENERATED from core/codec/commands.go, each
  evaluated by the kernel over the whole (finite) table, and the general lemmas
  that lift them to arbitrary command names.
-/
namespace RcVerif.Lemmas.Tables
open RcVerif RcVerif.Commands RcVerif.CDecode

theorem lookup_mem {α β} [DecidableEq α] (k : α) (l : List (α × β)) (v : β)
    (h : lookup k l = some v) : (k, v) ∈ l := by
  induction l with
  | nil => simp [lookup] at h
  | cons p l ih =>
    obtain ⟨k', v'⟩ := p
    simp only [lookup] at h
    split at h
    · rename_i hk; injection h with h; subst hk h; simp
    · exact List.mem_cons_of_mem _ (ih h)

theorem checkArgs_cases (T : Tables) (c n : Nat) : checkArgs T c n = c ∨ checkArgs T c n = T.cWrongArgs := by
  unfold checkArgs
  split
  · right; rfl
  · split
    · split <;> simp
    · split
      · split <;> simp
      · split
        · split <;> simp
        · right; rfl

/-- a request type other than "unknown" / "wrong arguments" comes from the name table and passed the arity check -/
theorem transform2Type_real (T : Tables) (name : Bytes) (n c : Nat)
    (h : transform2Type T name n = c) (h1 : c ≠ T.cUnknown) (h2 : c ≠ T.cWrongArgs) :
    lookup (toLower name) T.str2type = some c ∧ checkArgs T c n = c := by
  unfold transform2Type at h
  cases hl : lookup (toLower name) T.str2type with
  | none => rw [hl] at h; exact absurd h.symm h1
  | some v =>
    rw [hl] at h
    simp only at h
    rcases checkArgs_cases T v n with hc | hc
    · rw [hc] at h; subst h; exact ⟨rfl, hc⟩
    · rw [hc] at h; exact absurd h.symm h2

/-! ### finite facts about the regenerated tables (kernel-evaluated) -/

theorem codes_distinct :
    goTables.cMget ≠ goTables.cDel ∧ goTables.cMget ≠ goTables.cMset ∧ goTables.cDel ≠ goTables.cMset ∧
    goTables.cMget ≠ goTables.cEval ∧ goTables.cMget ≠ goTables.cEvalsha ∧
    goTables.cDel ≠ goTables.cEval ∧ goTables.cDel ≠ goTables.cEvalsha ∧
    goTables.cMset ≠ goTables.cEval ∧ goTables.cMset ≠ goTables.cEvalsha ∧
    goTables.cEval ≠ goTables.cEvalsha := by decide

theorem special_codes_distinct :
    ∀ c ∈ [goTables.cMget, goTables.cDel, goTables.cMset, goTables.cEval, goTables.cEvalsha],
      c ≠ goTables.cUnknown ∧ c ≠ goTables.cWrongArgs ∧ c ≠ goTables.cTooLarge := by decide

/-- the only name that maps to MGET / DEL / MSET is "mget" / "del" / "mset" -/
theorem split_names : ∀ p ∈ goTables.str2type,
    (p.2 = goTables.cMget → p.1 = nameMget) ∧ (p.2 = goTables.cDel → p.1 = nameDel) ∧
    (p.2 = goTables.cMset → p.1 = nameMset) := by decide +kernel

/-- every name of the table is already lower case -/
theorem names_lower : ∀ p ∈ goTables.str2type, toLower p.1 = p.1 := by decide +kernel

/-- every named command is below the sentinel, above UNKNOWN, and is neither of the two pseudo types -/
theorem names_real : ∀ p ∈ goTables.str2type,
    goTables.cUnknown < p.2 ∧ p.2 < goTables.cSentinel ∧ p.2 ≠ goTables.cTooLarge ∧ p.2 ≠ goTables.cWrongArgs := by
  decide +kernel

/-- the two name maps are mutually inverse -/
theorem maps_inverse :
    (∀ p ∈ Gen.str2type, lookup p.2 Gen.type2str = some p.1) ∧
    (∀ p ∈ Gen.type2str, lookup p.2 Gen.str2type = some p.1) := by decide +kernel

/-- every named command has an arity class, and it is the one of the frozen reference table -/
theorem arity_matches_reference : ∀ p ∈ goTables.str2type,
    lookup p.2 goTables.type2nargs = lookup p.1 Spec.refArity ∧ (lookup p.1 Spec.refArity).isSome := by
  decide +kernel

/-- the reference table has no name the code lacks -/
theorem reference_covered : ∀ p ∈ Spec.refArity, (lookup p.1 goTables.str2type).isSome := by
  decide +kernel

theorem nargs_constants : goTables.nargsFixed = [0, 1, 2, 3, 4] ∧ goTables.nargsInf = -1 ∧ goTables.nargsEvenInf = -2 := by
  decide

/-- the supported name set is exactly the documented one (docs/command.md "Yes" rows) plus AUTH,
    which the proxy answers itself -/
theorem names_eq_docs :
    (∀ p ∈ goTables.str2type, p.1 = [97, 117, 116, 104] ∨ (p.1, true) ∈ Gen.docRows) ∧
    (∀ r ∈ Gen.docRows, r.2 = true → (lookup r.1 goTables.str2type).isSome) := by
  decide +kernel

end RcVerif.Lemmas.Tables
