"""Per-property configuration of bin/check: theorem modules, correspondence views
(view, cases in quick tier, cases in thorough tier), and evidence texts."""

PROPS = {
    "C05": {
        "lean": ["RcVerif.Props.C05"],
        "uses_gen": True,
        "views": [("hash", 8000, 300000)],
        "nontrivial_tags": ["tagged", "braces-no-tag", "long"],
        "rule": "hash view: every arrangement of '{', '}', 'x' up to length 7 (3280 keys, exhaustive) first, then random tagged / brace-heavy / binary keys up to 300 bytes; a case is non-trivial when the key contains a brace or is longer than 64 bytes; distinct = distinct input lines",
        "assumptions": ["strings.Index behaves as first-occurrence search", "Go uint32 shift/xor semantics as modelled in Hash.crcStep"],
        "technique": "Lean 4 proof (induction over the key, linearity of the CRC shift register, kernel-evaluated 256-entry table) over the regenerated table + differential correspondence of hashkit.Hash",
        "level_text": "Theorem C05: for every byte string, the model of hashkit.Hash over the CRC table and slot count regenerated from the Go source equals the bitwise CRC16/XMODEM + hash-tag specification (unbounded, by induction; table checked entry by entry by the kernel). The hand-written part of the model (tag extraction, uint32 loop) is tied to the real function by the hash view. A proof is the right level because the quantifier is all byte strings.",
        "level_note": "Trusted: Lean kernel (axioms propext, Quot.sound), the translator's table extraction, the hash view's sampling of the tie between Hash.hashKey and hashkit.Hash, Go's strings.Index and uint32 semantics.",
    },
}

# properties not (yet) claimed, with the reason; kept current as checks come on line
NOT_APPLICABLE = {
    "C01": "check not built yet in this round (planned: Sim invariant, DESIGN.md §5)",
    "C02": "check not built yet in this round",
    "C03": "check not built yet in this round",
    "C04": "check not built yet in this round",
    "C06": "check not built yet in this round",
    "C07": "check not built yet in this round",
    "C08": "check not built yet in this round",
    "C09": "check not built yet in this round",
    "C10": "check not built yet in this round",
    "C11": "check not built yet in this round",
    "C12": "check not built yet in this round",
    "C13": "check not built yet in this round",
    "C14": "check not built yet in this round",
    "C15": "check not built yet in this round",
    "C16": "check not built yet in this round",
    "C17": "check not built yet in this round",
    "C18": "check not built yet in this round",
    "C19": "check not built yet in this round",
    "C20": "check not built yet in this round",
}
