// translator: re-extracts, from /repo's current working tree, every table and
// named constant the Lean model depends on, and writes them as plain Lean data
// (lean/RcVerif/Gen/Tables.lean). Std-lib only (go/parser, go/ast).
//
// It fails loudly (exit 2, message on stderr) when a declaration it needs is
// missing or has an unexpected shape; bin/check treats that as a broken tie.
package main

import (
	"bufio"
	"fmt"
	"go/ast"
	"go/parser"
	"go/token"
	"go/types"
	"os"
	"path/filepath"
	"sort"
	"strconv"
	"strings"
)

func die(format string, a ...interface{}) {
	fmt.Fprintf(os.Stderr, "translator: "+format+"\n", a...)
	os.Exit(2)
}

func parseFile(path string) *ast.File {
	fset := token.NewFileSet()
	f, err := parser.ParseFile(fset, path, nil, 0)
	if err != nil {
		die("parse %s: %v", path, err)
	}
	return f
}

// ---------- constant evaluation (ints and strings) ----------

type env struct {
	ints map[string]int64
	strs map[string]string
}

func newEnv() *env { return &env{map[string]int64{}, map[string]string{}} }

func (e *env) evalInt(x ast.Expr, iota int64) (int64, bool) {
	switch v := x.(type) {
	case *ast.BasicLit:
		if v.Kind == token.INT {
			n, err := strconv.ParseInt(v.Value, 0, 64)
			if err != nil {
				return 0, false
			}
			return n, true
		}
		if v.Kind == token.CHAR {
			s, err := strconv.Unquote(v.Value)
			if err != nil || len(s) != 1 {
				return 0, false
			}
			return int64(s[0]), true
		}
	case *ast.Ident:
		if v.Name == "iota" {
			return iota, true
		}
		n, ok := e.ints[v.Name]
		return n, ok
	case *ast.ParenExpr:
		return e.evalInt(v.X, iota)
	case *ast.UnaryExpr:
		n, ok := e.evalInt(v.X, iota)
		if !ok {
			return 0, false
		}
		switch v.Op {
		case token.SUB:
			return -n, true
		case token.ADD:
			return n, true
		}
	case *ast.BinaryExpr:
		a, ok1 := e.evalInt(v.X, iota)
		b, ok2 := e.evalInt(v.Y, iota)
		if !ok1 || !ok2 {
			return 0, false
		}
		switch v.Op {
		case token.ADD:
			return a + b, true
		case token.SUB:
			return a - b, true
		case token.MUL:
			return a * b, true
		case token.SHL:
			return a << uint(b), true
		case token.QUO:
			if b != 0 {
				return a / b, true
			}
		}
	case *ast.CallExpr: // conversions like Command(3), byte('x')
		if len(v.Args) == 1 {
			return e.evalInt(v.Args[0], iota)
		}
	case *ast.SelectorExpr:
		n, ok := e.ints[v.Sel.Name]
		return n, ok
	}
	return 0, false
}

func (e *env) evalStr(x ast.Expr) (string, bool) {
	switch v := x.(type) {
	case *ast.BasicLit:
		if v.Kind == token.STRING {
			s, err := strconv.Unquote(v.Value)
			return s, err == nil
		}
	case *ast.Ident:
		s, ok := e.strs[v.Name]
		return s, ok
	case *ast.SelectorExpr:
		s, ok := e.strs[v.Sel.Name]
		return s, ok
	case *ast.BinaryExpr:
		if v.Op == token.ADD {
			a, ok1 := e.evalStr(v.X)
			b, ok2 := e.evalStr(v.Y)
			return a + b, ok1 && ok2
		}
	case *ast.ParenExpr:
		return e.evalStr(v.X)
	case *ast.CallExpr:
		// X.String() on a known string constant, or Type("..") conversion
		if sel, ok := v.Fun.(*ast.SelectorExpr); ok && len(v.Args) == 0 && sel.Sel.Name == "String" {
			return e.evalStr(sel.X)
		}
		if len(v.Args) == 1 {
			return e.evalStr(v.Args[0])
		}
	}
	return "", false
}

// loadConsts evaluates all const blocks of a file in order (iota aware) and
// returns the names in declaration order.
func (e *env) loadConsts(f *ast.File) []string {
	var order []string
	for _, d := range f.Decls {
		gd, ok := d.(*ast.GenDecl)
		if !ok || gd.Tok != token.CONST {
			continue
		}
		var lastVals []ast.Expr
		for i, s := range gd.Specs {
			vs := s.(*ast.ValueSpec)
			vals := vs.Values
			if len(vals) == 0 {
				vals = lastVals
			} else {
				lastVals = vals
			}
			for j, name := range vs.Names {
				if j >= len(vals) {
					continue
				}
				if n, ok := e.evalInt(vals[j], int64(i)); ok {
					e.ints[name.Name] = n
					order = append(order, name.Name)
				} else if s, ok := e.evalStr(vals[j]); ok {
					e.strs[name.Name] = s
					order = append(order, name.Name)
				}
			}
		}
	}
	return order
}

func findVar(f *ast.File, name string) ast.Expr {
	for _, d := range f.Decls {
		gd, ok := d.(*ast.GenDecl)
		if !ok || gd.Tok != token.VAR {
			continue
		}
		for _, s := range gd.Specs {
			vs := s.(*ast.ValueSpec)
			for j, n := range vs.Names {
				if n.Name == name && j < len(vs.Values) {
					return vs.Values[j]
				}
			}
		}
	}
	return nil
}

// ---------- Lean emitters ----------

func leanStr(s string) string {
	var b strings.Builder
	b.WriteByte('"')
	for i := 0; i < len(s); i++ {
		c := s[i]
		switch {
		case c == '"':
			b.WriteString("\\\"")
		case c == '\\':
			b.WriteString("\\\\")
		case c == '\r':
			b.WriteString("\\r")
		case c == '\n':
			b.WriteString("\\n")
		case c == '\t':
			b.WriteString("\\t")
		case c < 32 || c > 126:
			fmt.Fprintf(&b, "\\x%02x", c)
		default:
			b.WriteByte(c)
		}
	}
	b.WriteByte('"')
	return b.String()
}

func leanBytes(s string) string {
	parts := make([]string, len(s))
	for i := 0; i < len(s); i++ {
		parts[i] = strconv.Itoa(int(s[i]))
	}
	return "[" + strings.Join(parts, ", ") + "]"
}

func leanIdent(s string) string {
	r := []rune(s)
	r[0] = []rune(strings.ToLower(string(r[0])))[0]
	return string(r)
}

// ---------- program order of the topology hand-over ----------

func findFunc(f *ast.File, name string) *ast.FuncDecl {
	for _, d := range f.Decls {
		if fd, ok := d.(*ast.FuncDecl); ok && fd.Name.Name == name && fd.Body != nil {
			return fd
		}
	}
	return nil
}

func isSel(x ast.Expr, name string) bool {
	s, ok := x.(*ast.SelectorExpr)
	return ok && s.Sel.Name == name
}

func callsMethod(n ast.Node, name string) bool {
	found := false
	ast.Inspect(n, func(m ast.Node) bool {
		if c, ok := m.(*ast.CallExpr); ok && isSel(c.Fun, name) {
			found = true
		}
		return !found
	})
	return found
}

// flagAssign: `<...>.serverChanged = true|false`
func flagAssign(st ast.Stmt) (val string, ok bool) {
	a, isA := st.(*ast.AssignStmt)
	if !isA || len(a.Lhs) != 1 || len(a.Rhs) != 1 || !isSel(a.Lhs[0], "serverChanged") {
		return "", false
	}
	id, isId := a.Rhs[0].(*ast.Ident)
	if !isId || (id.Name != "true" && id.Name != "false") {
		die("serverChanged is assigned something other than a boolean literal")
	}
	return id.Name, true
}

// tickerOrder: the order in which `if ...serverChanged { ... }` of eventloop.ticker touches the shared fields
func tickerOrder(f *ast.File) []string {
	fd := findFunc(f, "ticker")
	if fd == nil {
		die("eventloop.ticker not found")
	}
	var order []string
	seen := false
	for _, st := range fd.Body.List {
		is, ok := st.(*ast.IfStmt)
		if !ok || !isSel(is.Cond, "serverChanged") {
			if _, isFlag := flagAssign(st); isFlag {
				die("eventloop.ticker assigns serverChanged outside the `if serverChanged` block")
			}
			continue
		}
		if seen {
			die("eventloop.ticker tests serverChanged twice")
		}
		seen = true
		for _, b := range is.Body.List {
			if v, isFlag := flagAssign(b); isFlag {
				if v != "false" {
					die("eventloop.ticker raises serverChanged")
				}
				order = append(order, "reset")
				continue
			}
			rs, isRange := b.(*ast.RangeStmt)
			if !isRange {
				continue
			}
			x := types.ExprString(rs.X)
			switch {
			case strings.Contains(x, "ProxyPool") && callsMethod(rs.Body, "Close"):
				order = append(order, "remove")
			case strings.Contains(x, "ServerMap"):
				order = append(order, "add")
			case strings.Contains(x, "Replicasets"):
				order = append(order, "table")
			}
		}
	}
	if !seen {
		die("eventloop.ticker: no `if ...serverChanged` block")
	}
	return order
}


// poolFacts: the constants of the ban bookkeeping in listenServer.getConn (core/server/server_c.go) and the
// comparison that decides whether Pool.Get dials (core/redis_pool.go). Unknown shapes yield 0 / "?" / false, which
// makes the theorem that pins them (`pool_constants_are_modelled`) fail - not the whole translation.
func poolFacts(serverC, pool *ast.File) (capTest, capSet int, doubles bool, dialWhile string) {
	dialWhile = "?"
	if fd := findFunc(serverC, "getConn"); fd != nil {
		ast.Inspect(fd.Body, func(n ast.Node) bool {
			switch x := n.(type) {
			case *ast.IfStmt:
				if be, ok := x.Cond.(*ast.BinaryExpr); ok && isSel(be.X, "LiftBanOrder") && be.Op == token.GEQ {
					if lit, ok := be.Y.(*ast.BasicLit); ok {
						capTest, _ = strconv.Atoi(lit.Value)
					}
					for _, st := range x.Body.List {
						if as, ok := st.(*ast.AssignStmt); ok && len(as.Lhs) == 1 && isSel(as.Lhs[0], "LiftBanOrder") {
							if lit, ok := as.Rhs[0].(*ast.BasicLit); ok {
								capSet, _ = strconv.Atoi(lit.Value)
							}
						}
					}
				}
			case *ast.BinaryExpr:
				if x.Op == token.SHL && isSel(x.Y, "LiftBanOrder") {
					if lit, ok := x.X.(*ast.BasicLit); ok && lit.Value == "1" {
						doubles = true
					}
				}
			}
			return true
		})
	}
	if fd := findFunc(pool, "Get"); fd != nil {
		for _, st := range fd.Body.List {
			is, ok := st.(*ast.IfStmt)
			if !ok {
				continue
			}
			if be, ok := is.Cond.(*ast.BinaryExpr); ok && strings.Contains(types.ExprString(be.X), "active.count") && isSel(be.Y, "maxActive") {
				dialWhile = be.Op.String()
				break
			}
		}
	}
	return
}

// publishOrder: the order of the writes of updateClusterNodes once isChanged said yes
func publishOrder(f *ast.File) []string {
	fd := findFunc(f, "updateClusterNodes")
	if fd == nil {
		die("updateClusterNodes not found")
	}
	var order []string
	seen := false
	for _, st := range fd.Body.List {
		is, ok := st.(*ast.IfStmt)
		if !ok || !callsMethod(is.Cond, "isChanged") {
			if _, isFlag := flagAssign(st); isFlag {
				die("updateClusterNodes assigns serverChanged outside the `if isChanged` block")
			}
			continue
		}
		seen = true
		for _, b := range is.Body.List {
			if v, isFlag := flagAssign(b); isFlag {
				if v != "true" {
					die("updateClusterNodes takes serverChanged down")
				}
				order = append(order, "flag")
				continue
			}
			if callsMethod(b, "setServer") {
				order = append(order, "setServer")
			}
			if callsMethod(b, "setReplicaset") {
				order = append(order, "setReplicaset")
			}
		}
	}
	if !seen {
		die("updateClusterNodes: no `if c.isChanged(...)` block")
	}
	return order
}

func leanStrList(l []string) string {
	var q []string
	for _, s := range l {
		q = append(q, leanStr(s))
	}
	return "[" + strings.Join(q, ", ") + "]"
}

func main() {
	if len(os.Args) != 3 {
		die("usage: translator <repo> <out.lean>")
	}
	repo, out := os.Args[1], os.Args[2]
	var w strings.Builder
	w.WriteString("/- GENERATED by /verif/translator from /repo's working tree. Do not edit. -/\n")
	w.WriteString("namespace RcVerif.Gen\n\n")

	// ---- commands.go ----
	cf := parseFile(filepath.Join(repo, "core/codec/commands.go"))
	ce := newEnv()
	order := ce.loadConsts(cf)
	// the Command enum: the run of names from UNKNOWN to Sentinel
	var cmds []string
	in := false
	for _, n := range order {
		if n == "UNKNOWN" {
			in = true
		}
		if in {
			cmds = append(cmds, n)
		}
		if n == "Sentinel" {
			break
		}
	}
	if len(cmds) < 10 || cmds[len(cmds)-1] != "Sentinel" {
		die("command enum UNKNOWN..Sentinel not found")
	}
	w.WriteString("/-- `codec.Command` enum, (Go name, value), in declaration order. -/\n")
	w.WriteString("def commandEnum : List (String × Nat) := [\n")
	for i, n := range cmds {
		sep := ","
		if i == len(cmds)-1 {
			sep = ""
		}
		fmt.Fprintf(&w, "  (%s, %d)%s\n", leanStr(n), ce.ints[n], sep)
	}
	w.WriteString("]\n\n")
	for _, n := range []string{"UNKNOWN", "ReqMget", "ReqHscan", "ReqSscan", "ReqZscan", "ReqWriteCmdStart", "ReqDel", "ReqMset",
		"ReqEval", "ReqEvalsha", "ReqPing", "ReqQuit", "ReqAuth", "ReqTooLarge", "ReqWrongArgumentsNumber",
		"RspTooLarge", "RspStatus", "RspOk", "RspPong", "RspError", "RspNeedAuth", "RspNeedNtAuth", "RspAuthFailed",
		"RspInteger", "RspBulk", "RspMultibulk", "RspAsk", "RspMoved", "Sentinel"} {
		v, ok := ce.ints[n]
		if !ok {
			die("command constant %s not found", n)
		}
		fmt.Fprintf(&w, "def cmd%s : Nat := %d\n", n, v)
	}
	w.WriteString("\n")
	for _, n := range []string{"Nargsz", "Nargs0", "Nargs1", "Nargs2", "Nargs3", "NargsInf", "NargsEvenInf"} {
		v, ok := ce.ints[n]
		if !ok {
			die("NArgs constant %s not found", n)
		}
		fmt.Fprintf(&w, "def %s : Int := %d\n", leanIdent(n), v)
	}
	w.WriteString("\n")

	mapEntries := func(name string) [][2]ast.Expr {
		x := findVar(cf, name)
		cl, ok := x.(*ast.CompositeLit)
		if !ok {
			die("var %s: composite literal not found", name)
		}
		var res [][2]ast.Expr
		for _, el := range cl.Elts {
			kv, ok := el.(*ast.KeyValueExpr)
			if !ok {
				die("var %s: non key-value element", name)
			}
			res = append(res, [2]ast.Expr{kv.Key, kv.Value})
		}
		return res
	}
	// CommandStr2Type : name bytes -> code
	w.WriteString("/-- `codec.CommandStr2Type`, as (name bytes, command code), in source order. -/\n")
	w.WriteString("def str2type : List (List UInt8 × Nat) := [\n")
	ents := mapEntries("CommandStr2Type")
	for i, kv := range ents {
		k, ok1 := ce.evalStr(kv[0])
		v, ok2 := ce.evalInt(kv[1], 0)
		if !ok1 || !ok2 {
			die("CommandStr2Type entry %d not constant", i)
		}
		sep := ","
		if i == len(ents)-1 {
			sep = ""
		}
		fmt.Fprintf(&w, "  (%s, %d)%s  -- %s\n", leanBytes(k), v, sep, k)
	}
	w.WriteString("]\n\n")
	w.WriteString("/-- `codec.CommandType2Str`, as (command code, name bytes), in source order. -/\n")
	w.WriteString("def type2str : List (Nat × List UInt8) := [\n")
	ents = mapEntries("CommandType2Str")
	for i, kv := range ents {
		k, ok1 := ce.evalInt(kv[0], 0)
		v, ok2 := ce.evalStr(kv[1])
		if !ok1 || !ok2 {
			die("CommandType2Str entry %d not constant", i)
		}
		sep := ","
		if i == len(ents)-1 {
			sep = ""
		}
		fmt.Fprintf(&w, "  (%d, %s)%s  -- %s\n", k, leanBytes(v), sep, v)
	}
	w.WriteString("]\n\n")
	w.WriteString("/-- `codec.CommandType2ArgsNumber`, as (command code, NArgs), in source order. -/\n")
	w.WriteString("def type2nargs : List (Nat × Int) := [\n")
	ents = mapEntries("CommandType2ArgsNumber")
	for i, kv := range ents {
		k, ok1 := ce.evalInt(kv[0], 0)
		v, ok2 := ce.evalInt(kv[1], 0)
		if !ok1 || !ok2 {
			die("CommandType2ArgsNumber entry %d not constant", i)
		}
		sep := ","
		if i == len(ents)-1 {
			sep = ""
		}
		fmt.Fprintf(&w, "  (%d, %d)%s\n", k, v, sep)
	}
	w.WriteString("]\n\n")

	// ---- crc16.go ----
	hf := parseFile(filepath.Join(repo, "core/pkg/hashkit/crc16.go"))
	he := newEnv()
	he.loadConsts(hf)
	tab, ok := findVar(hf, "crc16tab").(*ast.CompositeLit)
	if !ok {
		die("crc16tab not found")
	}
	if len(tab.Elts) != 256 {
		die("crc16tab: expected 256 entries, got %d", len(tab.Elts))
	}
	w.WriteString("/-- `hashkit.crc16tab` (declared `[256]uint32`). -/\n")
	w.WriteString("def crc16tab : List Nat := [\n")
	for i, el := range tab.Elts {
		v, ok := he.evalInt(el, 0)
		if !ok || v < 0 {
			die("crc16tab[%d] not a constant", i)
		}
		sep := ","
		if i == 255 {
			sep = ""
		}
		fmt.Fprintf(&w, "  0x%04x%s", v, sep)
		if i%8 == 7 {
			w.WriteString("\n")
		}
	}
	w.WriteString("]\n\n")

	// ---- constant.go ----
	kf := parseFile(filepath.Join(repo, "core/pkg/constant/constant.go"))
	ke := newEnv()
	ke.loadConsts(kf)
	slots, ok := ke.ints["RedisClusterSlots"]
	if !ok {
		die("RedisClusterSlots not found")
	}
	fmt.Fprintf(&w, "def redisClusterSlots : Nat := %d\n", slots)
	rcn, ok := ke.strs["ReqClusterNodes"]
	if !ok {
		die("ReqClusterNodes not found")
	}
	fmt.Fprintf(&w, "def reqClusterNodes : List UInt8 := %s\n", leanBytes(rcn))
	ask, ok := ke.strs["ReqAsking"]
	if !ok {
		die("ReqAsking not found")
	}
	fmt.Fprintf(&w, "def reqAsking : List UInt8 := %s\n", leanBytes(ask))
	mr, ok := ke.ints["MaxRedirects"]
	if !ok {
		die("MaxRedirects not found")
	}
	fmt.Fprintf(&w, "def maxRedirects : Nat := %d\n\n", mr)

	// ---- codec/codec.go: status and error strings ----
	of := parseFile(filepath.Join(repo, "core/codec/codec.go"))
	oe := newEnv()
	oe.loadConsts(of)
	for _, n := range []string{"OK", "PONG", "ErrUnKnown", "ErrAddrNotFoundError", "ErrUnKnownCommand", "ErrUnKnownSlot",
		"ErrUnKnownProxyPoolError", "ErrUnKnownProxyPoolConnError", "ErrUnKnownMget", "ErrMsgReqTooLarge", "ErrMsgRspTooLarge",
		"ErrMsgReqWrongArgumentsNumber", "ErrMsgRequestTimeout", "ErrAuthInvalidPassword", "ErrAuthNeedNtPassword",
		"ErrBackendClosed", "ErrTooManyRedirects"} {
		s, ok := oe.strs[n]
		if !ok {
			die("codec constant %s not found", n)
		}
		fmt.Fprintf(&w, "def str%s : List UInt8 := %s  -- %s\n", n, leanBytes(s), leanStr(s))
	}
	w.WriteString("\n")

	// ---- server: READONLY / AUTH command format ----
	sf := parseFile(filepath.Join(repo, "core/server/server_s.go"))
	se := newEnv()
	se.loadConsts(sf)
	ro, ok := se.strs["ReadOnly"]
	if !ok {
		die("server.ReadOnly not found")
	}
	fmt.Fprintf(&w, "def strReadOnly : List UInt8 := %s  -- %s\n", leanBytes(ro), leanStr(ro))
	sf2 := parseFile(filepath.Join(repo, "core/server/server.go"))
	se2 := newEnv()
	se2.loadConsts(sf2)
	ac, ok := se2.strs["AuthCmd"]
	if !ok {
		die("server.AuthCmd not found")
	}
	parts := strings.Split(ac, "%s")
	if len(parts) != 3 {
		die("server.AuthCmd: expected two %%s verbs, got %q", ac)
	}
	for i, p := range parts {
		fmt.Fprintf(&w, "def strAuthCmd%d : List UInt8 := %s  -- %s\n", i, leanBytes(p), leanStr(p))
	}
	w.WriteString("\n")

	// ---- eventloop.go: iovMax; ring constants; gnet defaults ----
	ef := parseFile(filepath.Join(repo, "core/eventloop.go"))
	ee := newEnv()
	ee.loadConsts(ef)
	iov, ok := ee.ints["iovMax"]
	if !ok {
		die("iovMax not found")
	}
	fmt.Fprintf(&w, "def iovMax : Nat := %d\n", iov)
	rf := parseFile(filepath.Join(repo, "core/pkg/buffer/ring/ring_buffer.go"))
	re := newEnv()
	re.loadConsts(rf)
	for _, n := range []string{"MinRead", "DefaultBufferSize", "bufferGrowThreshold"} {
		v, ok := re.ints[n]
		if !ok {
			die("ring constant %s not found", n)
		}
		fmt.Fprintf(&w, "def ring%s : Nat := %d\n", strings.Title(n), v)
	}
	gf := parseFile(filepath.Join(repo, "core/gnet.go"))
	ge := newEnv()
	ge.loadConsts(gf)
	if x := findVar(gf, "MaxStreamBufferCap"); x != nil {
		if v, ok := ge.evalInt(x, 0); ok {
			fmt.Fprintf(&w, "def maxStreamBufferCap : Nat := %d\n", v)
		} else {
			die("MaxStreamBufferCap not constant")
		}
	} else {
		die("MaxStreamBufferCap not found")
	}
	w.WriteString("\n")

	// ---- docs/command.md ----
	df, err := os.Open(filepath.Join(repo, "docs/command.md"))
	if err != nil {
		die("docs/command.md: %v", err)
	}
	type row struct {
		name, comment string
		yes           bool
	}
	var rows []row
	sc := bufio.NewScanner(df)
	for sc.Scan() {
		line := strings.TrimSpace(sc.Text())
		if !strings.HasPrefix(line, "|") {
			continue
		}
		cols := strings.Split(strings.Trim(line, "|"), "|")
		if len(cols) < 2 {
			continue
		}
		name := strings.TrimSpace(cols[0])
		sup := strings.TrimSpace(cols[1])
		if name == "Command" || strings.HasPrefix(name, ":") || name == "" {
			continue
		}
		if sup != "Yes" && sup != "No" {
			die("docs/command.md: unexpected Supported? cell %q for %s", sup, name)
		}
		comment := ""
		if len(cols) > 2 {
			comment = strings.TrimSpace(cols[2])
		}
		rows = append(rows, row{strings.ToLower(name), comment, sup == "Yes"})
	}
	df.Close()
	if len(rows) < 50 {
		die("docs/command.md: only %d rows", len(rows))
	}
	w.WriteString("/-- rows of `docs/command.md`: (lower-cased command name bytes, supported?). -/\n")
	w.WriteString("def docRows : List (List UInt8 × Bool) := [\n")
	for i, r := range rows {
		sep := ","
		if i == len(rows)-1 {
			sep = ""
		}
		b := "false"
		if r.yes {
			b = "true"
		}
		fmt.Fprintf(&w, "  (%s, %s)%s  -- %s %s\n", leanBytes(r.name), b, sep, r.name, r.comment)
	}
	w.WriteString("]\n\n")

	// sanity: sorted list of supported names for humans
	var yes []string
	for _, r := range rows {
		if r.yes {
			yes = append(yes, r.name)
		}
	}
	sort.Strings(yes)
	fmt.Fprintf(&w, "-- documented as supported (%d): %s\n\n", len(yes), strings.Join(yes, " "))
	// ---- hand-over of a new topology: program order on both sides ----
	w.WriteString("-- order in which `if serverChanged { ... }` of eventloop.ticker touches the shared fields\n")
	fmt.Fprintf(&w, "def tickerOrder : List String := %s\n", leanStrList(tickerOrder(parseFile(filepath.Join(repo, "core/eventloop.go")))))
	w.WriteString("-- order of the writes of updateClusterNodes once a change was detected\n")
	fmt.Fprintf(&w, "def publishOrder : List String := %s\n\n", leanStrList(publishOrder(parseFile(filepath.Join(repo, "core/cluster.go")))))
	// ---- pool / ban bookkeeping constants ----
	capTest, capSet, doubles, dialWhile := poolFacts(parseFile(filepath.Join(repo, "core/server/server_c.go")), parseFile(filepath.Join(repo, "core/redis_pool.go")))
	w.WriteString("-- getConn: `if pool.LiftBanOrder >= banOrderCap { pool.LiftBanOrder = banOrderCapAssigned }`, ban length `1<<LiftBanOrder` retry periods\n")
	fmt.Fprintf(&w, "def banOrderCap : Nat := %d\ndef banOrderCapAssigned : Nat := %d\ndef banDoubles : Bool := %v\n", capTest, capSet, doubles)
	w.WriteString("-- Pool.Get dials while `active.count <poolDialWhile> maxActive`\n")
	fmt.Fprintf(&w, "def poolDialWhile : String := %q\n\n", dialWhile)
	w.WriteString("end RcVerif.Gen\n")

	// write only if changed (keeps lake's incremental build quiet)
	old, _ := os.ReadFile(out)
	if string(old) != w.String() {
		if err := os.MkdirAll(filepath.Dir(out), 0o755); err != nil {
			die("%v", err)
		}
		if err := os.WriteFile(out, []byte(w.String()), 0o644); err != nil {
			die("%v", err)
		}
		fmt.Println("translator: wrote", out)
	} else {
		fmt.Println("translator: unchanged", out)
	}
}
