module rctranslator

go 1.17
